(* C40: generic runner facts about side effects (exactly-once at the stopping
   instant; effect-erasing simulation; effects mirror emissions) and their
   instances for using / finally_action / do_finally / do_action variants. *)
From RxVerif Require Import Base.Prelude Ops.Machine Ops.MachineFacts Ops.Multi Ops.MultiFacts Ops.Using
  Ops.Elementwise Ops.RaiseFacts Ops.Lift.

Local Open Scope nat_scope.

(* ------------------------------------------------------------------------ *)
(* counting one effect code                                                   *)
Section Count.
Context {B : Type}.

Definition is_eff (n : Z) (o : obs B) : bool := match o with OEffect k => Z.eqb k n | _ => false end.
Definition is_ceff (n : Z) (c : cmd B) : bool := match c with CEffect k => Z.eqb k n | _ => false end.
Definition cnt_obs (n : Z) (os : list (obs B)) : nat := length (filter (is_eff n) os).
Definition cnt_cmd (n : Z) (cs : list (cmd B)) : nat := length (filter (is_ceff n) cs).
Definition cnt_tr (n : Z) (tr : list (nat * obs B)) : nat := cnt_obs n (map snd tr).

Lemma cnt_obs_app n a b : cnt_obs n (a ++ b) = cnt_obs n a + cnt_obs n b.
Proof. unfold cnt_obs. now rewrite filter_app, app_length. Qed.

Lemma cnt_cmd_app n a b : cnt_cmd n (a ++ b) = cnt_cmd n a + cnt_cmd n b.
Proof. unfold cnt_cmd. now rewrite filter_app, app_length. Qed.

Lemma cnt_tr_app n a b : cnt_tr n (a ++ b) = cnt_tr n a + cnt_tr n b.
Proof. unfold cnt_tr. now rewrite map_app, cnt_obs_app. Qed.

Lemma cnt_tr_tag n k (o : list (obs B)) : cnt_tr n (map (fun x => (k, x)) o) = cnt_obs n o.
Proof. unfold cnt_tr. now rewrite map_map, map_id. Qed.

Lemma apply_cmds_cnt n (cs : list (cmd B)) : forall r, cnt_obs n (snd (apply_cmds r cs)) = cnt_cmd n cs.
Proof.
  induction cs as [|c t IH]; intros r; cbn [apply_cmds]; [reflexivity|].
  destruct c; cbn;
    try (destruct (mem _ _));
    match goal with |- context [apply_cmds ?r' t] => specialize (IH r'); destruct (apply_cmds r' t) end;
    cbn [fst snd] in *; try exact IH.
  change (cnt_obs n (OEffect n0 :: l) = cnt_cmd n (CEffect n0 :: t)).
  unfold cnt_obs, cnt_cmd in *. cbn [filter is_eff is_ceff]. destruct (Z.eqb n0 n); cbn [length]; congruence.
Qed.

Lemma map_unsub_cnt n l : cnt_obs n (map (@OUnsub B) l) = 0.
Proof. induction l; auto. Qed.
Lemma map_cancel_cnt n l : cnt_obs n (map (@OCancel B) l) = 0.
Proof. induction l; auto. Qed.

Lemma release_cnt n r : cnt_obs n (snd (@release B r)) = 0.
Proof. unfold release. cbn [snd]. now rewrite cnt_obs_app, map_unsub_cnt, map_cancel_cnt. Qed.

Lemma finish_cnt n r f : cnt_obs n (snd (@finish B r f)) = 0.
Proof.
  destruct f; cbn [finish]; [reflexivity| |]; pose proof (release_cnt n r) as H;
    destruct (release r) as [r' o]; cbn [snd] in *; exact H.
Qed.

Lemma finish_stopped r f : r_stopped (fst (@finish B r f)) = if live f then r_stopped r else true.
Proof. destruct f; reflexivity. Qed.

Lemma filter_noemit_cnt n (o : list (obs B)) :
  cnt_obs n (filter (fun o => match o with OEmit _ => false | _ => true end) o) = cnt_obs n o.
Proof.
  induction o as [|x t IH]; [reflexivity|]. destruct x; cbn [filter]; try exact IH;
    unfold cnt_obs in *; cbn [filter is_eff]; try exact IH.
  destruct (Z.eqb n0 n); cbn [length]; congruence.
Qed.
End Count.

(* ------------------------------------------------------------------------ *)
(* G1: an effect emitted exactly at the stopping step occurs exactly once      *)
Definition stops {A} (i : inp A) (f : fin) : bool :=
  match i with IDispose => true | _ => negb (live f) end.

Section Once.
Context {A B : Type} (m : machine A B) (n : Z) (P : x_state m -> Prop).

Record once_at_stop : Prop := {
  oas_start_cnt : cnt_cmd n (snd (fst (x_start m))) = if live (snd (x_start m)) then 0 else 1;
  oas_start_inv : live (snd (x_start m)) = true -> P (fst (fst (x_start m)));
  oas_step_cnt : forall s now i, P s ->
    cnt_cmd n (snd (fst (x_step m s now i))) = if stops i (snd (x_step m s now i)) then 1 else 0;
  oas_step_inv : forall s now i, P s -> stops i (snd (x_step m s now i)) = false ->
    P (fst (fst (x_step m s now i))) }.

Hypothesis H : once_at_stop.

Lemma deliver_once s r0 now (i : inp A) (X : rstate -> rstate * list (obs B)) :
  (forall r1, cnt_obs n (snd (X r1)) = 0 /\ r_stopped (fst (X r1)) = r_stopped r1) ->
  i <> IDispose -> r_stopped r0 = false -> P s ->
  let res := (let '(s', cs, f) := x_step m s now i in
              let '(r1, o1) := apply_cmds r0 cs in
              let '(r2, o2) := X r1 in
              let '(r3, o3) := finish r2 f in (s', r3, o1 ++ o2 ++ o3)) in
  (r_stopped (snd (fst res)) = false /\ cnt_obs n (snd res) = 0 /\ P (fst (fst res)))
  \/ (r_stopped (snd (fst res)) = true /\ cnt_obs n (snd res) = 1).
Proof.
  intros HX Hi H0 HP. cbv zeta.
  pose proof (oas_step_cnt H s now i HP) as Hc. pose proof (oas_step_inv H s now i HP) as Hinv.
  destruct (x_step m s now i) as [[s' cs] f]. cbn [fst snd] in *.
  pose proof (apply_cmds_cnt n cs r0) as H1. pose proof (apply_cmds_stopped cs r0) as H2.
  destruct (apply_cmds r0 cs) as [r1 o1]. cbn [fst snd] in *.
  destruct (HX r1) as [H3 H4]. destruct (X r1) as [r2 o2]. cbn [fst snd] in *.
  pose proof (finish_cnt (B := B) n r2 f) as H5. pose proof (finish_stopped (B := B) r2 f) as H6.
  destruct (finish r2 f) as [r3 o3]. cbn [fst snd] in *.
  rewrite !cnt_obs_app, H1, H3, H5, Hc, H6.
  assert (Hs : stops i f = negb (live f)) by (destruct i; try reflexivity; congruence).
  rewrite Hs in *. destruct (live f); cbn [negb] in *.
  - left. split; [congruence|split; [lia|auto]].
  - right. split; [reflexivity|lia].
Qed.

Lemma rstep_once s r now i : r_stopped r = false -> P s ->
  (r_stopped (snd (fst (rstep m s r now i))) = false /\ cnt_obs n (snd (rstep m s r now i)) = 0
   /\ P (fst (fst (rstep m s r now i))))
  \/ (r_stopped (snd (fst (rstep m s r now i))) = true /\ cnt_obs n (snd (rstep m s r now i)) = 1).
Proof.
  intros H0 HP. unfold rstep. rewrite H0.
  destruct i as [k e|tag|].
  - destruct (mem k (r_live r)); [|left; auto].
    apply (deliver_once s r now (ISrc k e)
             (fun r1 => if is_terminal e && mem k (r_live r1)
                        then (RState (remove k (r_live r1)) (r_timers r1) (r_stopped r1), [OUnsub k])
                        else (r1, []))); auto; try discriminate.
    intros r1. destruct (is_terminal e && mem k (r_live r1)); auto.
  - destruct (mem tag (r_timers r)); [|left; auto].
    apply (deliver_once s _ now (ITick tag) (fun r1 => (r1, []))); auto; discriminate.
  - pose proof (oas_step_cnt H s now IDispose HP) as Hc.
    destruct (x_step m s now IDispose) as [[s' cs] f]. cbn [fst snd stops] in *.
    pose proof (apply_cmds_cnt n cs r) as H1. destruct (apply_cmds r cs) as [r1 o1]. cbn [fst snd] in *.
    right. split; [reflexivity|]. pose proof (release_cnt (B := B) n r1) as H2.
    destruct (release r1) as [r2 o2]. cbn [fst snd] in *.
    rewrite cnt_obs_app, filter_noemit_cnt, H1, Hc, H2. reflexivity.
Qed.

Lemma run_from_once ins : forall s r k, r_stopped r = false -> P s ->
  cnt_tr n (fst (run_from m s r k ins)) = if r_stopped (snd (run_from m s r k ins)) then 1 else 0.
Proof.
  induction ins as [|[now i] rest IH]; intros s r k H0 HP; cbn [run_from].
  - cbn. now rewrite H0.
  - pose proof (rstep_once s r now i H0 HP) as K.
    destruct (rstep m s r now i) as [[s' r'] o]. cbn [fst snd] in K.
    destruct K as [[K1 [K2 K3]]|[K1 K2]].
    + specialize (IH s' r' (S k) K1 K3). destruct (run_from m s' r' (S k) rest) as [tr rf].
      cbn [fst snd] in *. rewrite cnt_tr_app, cnt_tr_tag, K2. exact IH.
    + rewrite run_from_stopped by exact K1. cbn [fst snd].
      rewrite app_nil_r, cnt_tr_tag, K2, K1. reflexivity.
Qed.

(* the effect occurs once if the subscription has stopped, and not (yet) otherwise *)
Theorem effect_once ins :
  cnt_tr n (fst (run m ins)) = if r_stopped (snd (run m ins)) then 1 else 0.
Proof.
  unfold run. pose proof (oas_start_cnt H) as Hc. pose proof (oas_start_inv H) as Hi.
  destruct (x_start m) as [[s0 cs] f]. cbn [fst snd] in *.
  pose proof (apply_cmds_cnt n cs (RState [] [] false)) as H1.
  pose proof (apply_cmds_stopped cs (RState [] [] false)) as H2.
  destruct (apply_cmds (RState [] [] false) cs) as [r1 o1]. cbn [fst snd r_stopped] in *.
  pose proof (finish_cnt (B := B) n r1 f) as H5. pose proof (finish_stopped (B := B) r1 f) as H6.
  destruct (finish r1 f) as [r2 o2]. cbn [fst snd] in *.
  destruct (live f) eqn:Hl.
  - assert (H7 : r_stopped r2 = false) by congruence.
    pose proof (run_from_once ins s0 r2 1 H7 (Hi eq_refl)) as G.
    destruct (run_from m s0 r2 1 ins) as [tr rf]. cbn [fst snd] in *.
    rewrite cnt_tr_app, cnt_tr_tag, cnt_obs_app, H1, H5, Hc. cbn. exact G.
  - rewrite run_from_stopped by exact H6. cbn [fst snd].
    rewrite app_nil_r, cnt_tr_tag, cnt_obs_app, H1, H5, Hc, H6. reflexivity.
Qed.
End Once.

(* ------------------------------------------------------------------------ *)
(* G2: the trace of a prefix of the inputs is a prefix of the trace           *)
Section Prefix.
Context {A B : Type} (m : machine A B).

Lemma run_from_app a : forall b s r k, exists tr',
  fst (run_from m s r k (a ++ b)) = fst (run_from m s r k a) ++ tr'.
Proof.
  induction a as [|[now i] rest IH]; intros b s r k.
  - cbn [app run_from fst]. eexists. reflexivity.
  - cbn [app run_from]. destruct (rstep m s r now i) as [[s' r'] o].
    destruct (IH b s' r' (S k)) as [tr' E].
    destruct (run_from m s' r' (S k) (rest ++ b)) as [t1 f1].
    destruct (run_from m s' r' (S k) rest) as [t2 f2]. cbn [fst] in *. subst t1.
    exists tr'. now rewrite app_assoc.
Qed.

Theorem run_prefix a b : exists tr', fst (run m (a ++ b)) = fst (run m a) ++ tr'.
Proof.
  unfold run. destruct (x_start m) as [[s0 cs] f].
  destruct (apply_cmds (RState [] [] false) cs) as [r1 o1]. destruct (finish r1 f) as [r2 o2].
  destruct (run_from_app a b s0 r2 1) as [tr' E].
  destruct (run_from m s0 r2 1 (a ++ b)) as [t1 f1]. destruct (run_from m s0 r2 1 a) as [t2 f2].
  cbn [fst] in *. subst t1. exists tr'. now rewrite app_assoc.
Qed.

(* G3: the runner has stopped iff a terminal notification was emitted or a
   dispose was delivered *)
Definition is_dispose (i : inp A) : bool := match i with IDispose => true | _ => false end.
Definition has_dispose (ins : list (Z * inp A)) : bool := existsb (fun x => is_dispose (snd x)) ins.

Lemma ended_emits_app (a b : list (obs B)) : ended (emits (a ++ b)) = ended (emits a) || ended (emits b).
Proof. unfold ended. now rewrite emits_app, existsb_app. Qed.

Lemma deliver_stop s r0 now (i : inp A) (X : rstate -> rstate * list (obs B)) :
  (forall r1, emits (snd (X r1)) = [] /\ r_stopped (fst (X r1)) = r_stopped r1) ->
  r_stopped r0 = false ->
  let res := (let '(s', cs, f) := x_step m s now i in
              let '(r1, o1) := apply_cmds r0 cs in
              let '(r2, o2) := X r1 in
              let '(r3, o3) := finish r2 f in (s', r3, o1 ++ o2 ++ o3)) in
  r_stopped (snd (fst res)) = ended (emits (snd res)).
Proof.
  intros HX H0. cbv zeta. destruct (x_step m s now i) as [[s' cs] f].
  pose proof (apply_cmds_emits cs r0) as H1. pose proof (apply_cmds_stopped cs r0) as H2.
  destruct (apply_cmds r0 cs) as [r1 o1]. cbn [fst snd] in *.
  destruct (HX r1) as [H3 H4]. destruct (X r1) as [r2 o2]. cbn [fst snd] in *.
  destruct (finish_shape (B := B) r2 f) as [[-> Hf]|[t [Ht [Hf1 Hf2]]]].
  - rewrite Hf. cbn [fst snd]. rewrite !ended_emits_app, H3, (all_next_not_ended _ H1). cbn. congruence.
  - destruct (finish r2 f) as [r3 o3]. cbn [fst snd] in *.
    rewrite !ended_emits_app, H3, (all_next_not_ended _ H1), Hf1, Hf2. cbn. now rewrite Ht.
Qed.

Lemma rstep_stop_reason s r now i : r_stopped r = false ->
  r_stopped (snd (fst (rstep m s r now i))) = ended (emits (snd (rstep m s r now i))) || is_dispose i.
Proof.
  intros H0. unfold rstep. rewrite H0. destruct i as [k e|tag|]; cbn [is_dispose]; rewrite ?orb_false_r.
  - destruct (mem k (r_live r)); [|exact H0].
    apply (deliver_stop s r now (ISrc k e)
             (fun r1 => if is_terminal e && mem k (r_live r1)
                        then (RState (remove k (r_live r1)) (r_timers r1) (r_stopped r1), [OUnsub k])
                        else (r1, []))); auto.
    intros r1. destruct (is_terminal e && mem k (r_live r1)); auto.
  - destruct (mem tag (r_timers r)); [|exact H0].
    apply (deliver_stop s _ now (ITick tag) (fun r1 => (r1, []))); auto.
  - destruct (x_step m s now IDispose) as [[s' cs] f]. destruct (apply_cmds r cs) as [r1 o1].
    cbn [fst snd]. now rewrite orb_true_r.
Qed.

Lemma run_from_stop_reason ins : forall s r k, r_stopped r = false ->
  r_stopped (snd (run_from m s r k ins)) = ended (emitted (fst (run_from m s r k ins))) || has_dispose ins.
Proof.
  induction ins as [|[now i] rest IH]; intros s r k H0; cbn [run_from].
  - cbn. exact H0.
  - pose proof (rstep_stop_reason s r now i H0) as K.
    destruct (rstep m s r now i) as [[s' r'] o]. cbn [fst snd] in K.
    cbn [has_dispose existsb snd]. fold (has_dispose rest).
    destruct (r_stopped r') eqn:Hr.
    + rewrite run_from_stopped by exact Hr. cbn [fst snd]. rewrite app_nil_r, Hr.
      rewrite <- (app_nil_r (map _ o)), emitted_tag_app. cbn [emitted flat_map]. rewrite app_nil_r.
      symmetry in K. apply orb_true_iff in K. destruct K as [K|K]; rewrite K; cbn; now rewrite ?orb_true_r.
    + specialize (IH s' r' (S k) Hr). destruct (run_from m s' r' (S k) rest) as [tr rf]. cbn [fst snd] in *.
      symmetry in K. apply orb_false_iff in K. destruct K as [K1 K2].
      rewrite emitted_tag_app. unfold ended in *. rewrite existsb_app, K1, K2. cbn [orb]. exact IH.
Qed.

Theorem stopped_iff ins :
  r_stopped (snd (run m ins)) = ended (emitted (fst (run m ins))) || has_dispose ins.
Proof.
  unfold run. destruct (x_start m) as [[s0 cs] f].
  pose proof (apply_cmds_emits cs (RState [] [] false)) as H1.
  pose proof (apply_cmds_stopped cs (RState [] [] false)) as H2.
  destruct (apply_cmds (RState [] [] false) cs) as [r1 o1]. cbn [fst snd r_stopped] in *.
  destruct (finish_shape (B := B) r1 f) as [[-> Hf]|[t [Ht [Hf1 Hf2]]]].
  - rewrite Hf. pose proof (run_from_stop_reason ins s0 r1 1 H2) as G.
    destruct (run_from m s0 r1 1 ins) as [tr rf]. cbn [fst snd] in *.
    rewrite app_nil_r, emitted_tag_app. unfold ended in *. rewrite existsb_app.
    fold (ended (emits o1)). rewrite (all_next_not_ended _ H1). exact G.
  - destruct (finish r1 f) as [r2 o2]. cbn [fst snd] in *. subst r2.
    rewrite run_from_stopped by reflexivity. cbn [fst snd r_stopped].
    rewrite app_nil_r. rewrite <- (app_nil_r (map _ (o1 ++ o2))), emitted_tag_app. cbn [emitted flat_map].
    rewrite app_nil_r, ended_emits_app, Hf1. cbn. rewrite Ht. now rewrite orb_true_r.
Qed.
End Prefix.

(* ------------------------------------------------------------------------ *)
(* G4: two machines whose commands agree up to side effects produce the same
   trace up to side effects (same emissions, same subscribe / unsubscribe /
   timer instants) on EVERY input sequence                                    *)
Section Strip.
Context {B : Type}.
Definition keep_c (c : cmd B) : bool := match c with CEffect _ => false | _ => true end.
Definition keep_o (o : obs B) : bool := match o with OEffect _ => false | _ => true end.
Definition strip_c (cs : list (cmd B)) := filter keep_c cs.
Definition strip_o (os : list (obs B)) := filter keep_o os.
Definition strip_t (tr : list (nat * obs B)) := filter (fun x => keep_o (snd x)) tr.

Lemma strip_o_app a b : strip_o (a ++ b) = strip_o a ++ strip_o b.
Proof. apply filter_app. Qed.

Lemma strip_t_app a b : strip_t (a ++ b) = strip_t a ++ strip_t b.
Proof. apply filter_app. Qed.

Lemma strip_t_tag k (o : list (obs B)) :
  strip_t (map (fun x => (k, x)) o) = map (fun x => (k, x)) (strip_o o).
Proof.
  induction o as [|x t IH]; [reflexivity|]. unfold strip_t, strip_o in *. cbn [map filter snd].
  destruct (keep_o x); cbn [map]; now rewrite IH.
Qed.

Lemma apply_cmds_strip (cs : list (cmd B)) : forall r,
  apply_cmds r (strip_c cs) = (fst (apply_cmds r cs), strip_o (snd (apply_cmds r cs))).
Proof.
  induction cs as [|c t IH]; intros r; [reflexivity|].
  destruct c; cbn [strip_c filter keep_c apply_cmds]; fold (strip_c t);
    try (destruct (mem _ _));
    try (match goal with |- context [apply_cmds ?r' (strip_c t)] => rewrite (IH r') end);
    match goal with |- context [apply_cmds ?r' t] => destruct (apply_cmds r' t) end; reflexivity.
Qed.

Lemma apply_cmds_strip_eq (cs1 cs2 : list (cmd B)) r : strip_c cs1 = strip_c cs2 ->
  fst (apply_cmds r cs1) = fst (apply_cmds r cs2)
  /\ strip_o (snd (apply_cmds r cs1)) = strip_o (snd (apply_cmds r cs2)).
Proof.
  intros E. pose proof (apply_cmds_strip cs1 r) as H1. pose proof (apply_cmds_strip cs2 r) as H2.
  rewrite E in H1. rewrite H1 in H2. injection H2 as -> ->. split; reflexivity.
Qed.

Lemma strip_o_unsub l : strip_o (map (@OUnsub B) l) = map (@OUnsub B) l.
Proof. induction l as [|x t IH]; [reflexivity|]. unfold strip_o in *. cbn. now rewrite IH. Qed.
Lemma strip_o_cancel l : strip_o (map (@OCancel B) l) = map (@OCancel B) l.
Proof. induction l as [|x t IH]; [reflexivity|]. unfold strip_o in *. cbn. now rewrite IH. Qed.

Lemma strip_o_release r : strip_o (snd (@release B r)) = snd (@release B r).
Proof. unfold release. cbn [snd]. now rewrite strip_o_app, strip_o_unsub, strip_o_cancel. Qed.

Lemma strip_o_finish r f : strip_o (snd (@finish B r f)) = snd (@finish B r f).
Proof.
  destruct f; cbn [finish]; [reflexivity| |]; pose proof (strip_o_release r) as H;
    destruct (release r) as [r' o]; cbn [snd] in *; unfold strip_o in *; cbn [filter keep_o]; now rewrite H.
Qed.

Lemma strip_o_noemit (o : list (obs B)) :
  strip_o (filter (fun o => match o with OEmit _ => false | _ => true end) o)
  = filter (fun o => match o with OEmit _ => false | _ => true end) (strip_o o).
Proof.
  unfold strip_o. induction o as [|x t IH]; [reflexivity|]. destruct x; cbn [filter keep_o]; rewrite ?IH; reflexivity.
Qed.
End Strip.

Section Sim.
Context {A B : Type} (m1 m2 : machine A B) (R : x_state m1 -> x_state m2 -> Prop).

Record sim : Prop := {
  sim_start_c : strip_c (snd (fst (x_start m1))) = strip_c (snd (fst (x_start m2)));
  sim_start_f : snd (x_start m1) = snd (x_start m2);
  sim_start_R : R (fst (fst (x_start m1))) (fst (fst (x_start m2)));
  sim_step : forall s1 s2 now i, R s1 s2 ->
     strip_c (snd (fst (x_step m1 s1 now i))) = strip_c (snd (fst (x_step m2 s2 now i)))
     /\ snd (x_step m1 s1 now i) = snd (x_step m2 s2 now i)
     /\ R (fst (fst (x_step m1 s1 now i))) (fst (fst (x_step m2 s2 now i))) }.

Hypothesis H : sim.

Lemma deliver_sim s1 s2 r0 now (i : inp A) (X : rstate -> rstate * list (obs B)) :
  (forall r1, strip_o (snd (X r1)) = snd (X r1)) -> R s1 s2 ->
  let res1 := (let '(s', cs, f) := x_step m1 s1 now i in
               let '(r1, o1) := apply_cmds r0 cs in
               let '(r2, o2) := X r1 in
               let '(r3, o3) := finish r2 f in (s', r3, o1 ++ o2 ++ o3)) in
  let res2 := (let '(s', cs, f) := x_step m2 s2 now i in
               let '(r1, o1) := apply_cmds r0 cs in
               let '(r2, o2) := X r1 in
               let '(r3, o3) := finish r2 f in (s', r3, o1 ++ o2 ++ o3)) in
  snd (fst res1) = snd (fst res2) /\ strip_o (snd res1) = strip_o (snd res2)
  /\ R (fst (fst res1)) (fst (fst res2)).
Proof.
  intros HX HR. cbv zeta. destruct (sim_step H s1 s2 now i HR) as [Hc [Hf HR']].
  destruct (x_step m1 s1 now i) as [[s1' cs1] f1]. destruct (x_step m2 s2 now i) as [[s2' cs2] f2].
  cbn [fst snd] in *. subst f2.
  destruct (apply_cmds_strip_eq cs1 cs2 r0 Hc) as [E1 E2].
  destruct (apply_cmds r0 cs1) as [r1 o1]. destruct (apply_cmds r0 cs2) as [r1' o1'].
  cbn [fst snd] in *. subst r1'. pose proof (HX r1) as HX1. destruct (X r1) as [r2 o2]. cbn [snd] in HX1.
  pose proof (strip_o_finish (B := B) r2 f1) as HF. destruct (finish r2 f1) as [r3 o3]. cbn [fst snd] in *.
  repeat split; auto. now rewrite !strip_o_app, E2.
Qed.

Lemma rstep_sim s1 s2 r now i : R s1 s2 ->
  snd (fst (rstep m1 s1 r now i)) = snd (fst (rstep m2 s2 r now i))
  /\ strip_o (snd (rstep m1 s1 r now i)) = strip_o (snd (rstep m2 s2 r now i))
  /\ (r_stopped (snd (fst (rstep m1 s1 r now i))) = false ->
      R (fst (fst (rstep m1 s1 r now i))) (fst (fst (rstep m2 s2 r now i)))).
Proof.
  intros HR. unfold rstep. destruct (r_stopped r) eqn:H0; [cbn; auto|].
  destruct i as [k e|tag|].
  - destruct (mem k (r_live r)); [|cbn; auto].
    destruct (deliver_sim s1 s2 r now (ISrc k e)
             (fun r1 => if is_terminal e && mem k (r_live r1)
                        then (RState (remove k (r_live r1)) (r_timers r1) (r_stopped r1), [OUnsub k])
                        else (r1, []))) as [E1 [E2 E3]]; auto.
    intros r1. destruct (is_terminal e && mem k (r_live r1)); reflexivity.
  - destruct (mem tag (r_timers r)); [|cbn; auto].
    destruct (deliver_sim s1 s2 (RState (r_live r) (remove tag (r_timers r)) false) now
                (ITick tag) (fun r1 => (r1, []))) as [E1 [E2 E3]]; auto.
  - destruct (sim_step H s1 s2 now IDispose HR) as [Hc [Hf HR']].
    destruct (x_step m1 s1 now IDispose) as [[s1' cs1] f1].
    destruct (x_step m2 s2 now IDispose) as [[s2' cs2] f2]. cbn [fst snd] in *.
    destruct (apply_cmds_strip_eq cs1 cs2 r Hc) as [E1 E2].
    destruct (apply_cmds r cs1) as [r1 o1]. destruct (apply_cmds r cs2) as [r1' o1'].
    cbn [fst snd] in *. subst r1'. unfold release. cbn [fst snd r_stopped]. repeat split; try discriminate.
    now rewrite !strip_o_app, !strip_o_noemit, E2.
Qed.

Lemma run_from_sim ins : forall s1 s2 r k, R s1 s2 ->
  strip_t (fst (run_from m1 s1 r k ins)) = strip_t (fst (run_from m2 s2 r k ins))
  /\ snd (run_from m1 s1 r k ins) = snd (run_from m2 s2 r k ins).
Proof.
  induction ins as [|[now i] rest IH]; intros s1 s2 r k HR; cbn [run_from]; [auto|].
  destruct (rstep_sim s1 s2 r now i HR) as [E1 [E2 E3]].
  destruct (rstep m1 s1 r now i) as [[s1' r1] o1]. destruct (rstep m2 s2 r now i) as [[s2' r2] o2].
  cbn [fst snd] in *. subst r2.
  destruct (r_stopped r1) eqn:Hs.
  - rewrite !run_from_stopped by exact Hs. cbn [fst snd]. rewrite !app_nil_r, !strip_t_tag, E2. auto.
  - destruct (IH s1' s2' r1 (S k) (E3 eq_refl)) as [I1 I2].
    destruct (run_from m1 s1' r1 (S k) rest) as [t1 f1]. destruct (run_from m2 s2' r1 (S k) rest) as [t2 f2].
    cbn [fst snd] in *. split; [|exact I2]. now rewrite !strip_t_app, !strip_t_tag, E2, I1.
Qed.

Theorem run_sim ins :
  strip_t (fst (run m1 ins)) = strip_t (fst (run m2 ins)) /\ snd (run m1 ins) = snd (run m2 ins).
Proof.
  unfold run. pose proof (sim_start_c H) as Hc. pose proof (sim_start_f H) as Hf.
  pose proof (sim_start_R H) as HR.
  destruct (x_start m1) as [[s1 cs1] f1]. destruct (x_start m2) as [[s2 cs2] f2]. cbn [fst snd] in *. subst f2.
  destruct (apply_cmds_strip_eq cs1 cs2 (RState [] [] false) Hc) as [E1 E2].
  destruct (apply_cmds (RState [] [] false) cs1) as [r1 o1].
  destruct (apply_cmds (RState [] [] false) cs2) as [r1' o1']. cbn [fst snd] in *. subst r1'.
  pose proof (strip_o_finish (B := B) r1 f1) as HF. destruct (finish r1 f1) as [r2 o2]. cbn [snd] in HF.
  destruct (run_from_sim ins s1 s2 r2 1 HR) as [I1 I2].
  destruct (run_from m1 s1 r2 1 ins) as [t1 g1]. destruct (run_from m2 s2 r2 1 ins) as [t2 g2].
  cbn [fst snd] in *. split; [|exact I2].
  now rewrite !strip_t_app, !strip_t_tag, !strip_o_app, E2, I1.
Qed.
End Sim.

(* ------------------------------------------------------------------------ *)
(* G5: if every handler reports (as side effects) exactly the notifications it
   sends downstream, the effects of the whole trace are the codes of the
   emitted notifications, instant by instant                                   *)
Section Mirror.
Context {A B : Type} (m : machine A B) (code : ev B -> Z).

Definition ceffs (cs : list (cmd B)) : list Z :=
  flat_map (fun c => match c with CEffect n => [n] | _ => [] end) cs.
Definition cemits (cs : list (cmd B)) : list B :=
  flat_map (fun c => match c with CEmit b => [b] | _ => [] end) cs.
Definition oeffs (os : list (obs B)) : list Z :=
  flat_map (fun o => match o with OEffect n => [n] | _ => [] end) os.
Definition teffs (tr : list (nat * obs B)) : list (nat * Z) :=
  flat_map (fun x => match snd x with OEffect n => [(fst x, n)] | _ => [] end) tr.
Definition fin_ev (f : fin) : list (ev B) :=
  match f with Cont => [] | Complete => [Done] | Fail e => [Err e] end.
Definition tcode (x : nat * ev B) : nat * Z := (fst x, code (snd x)).

Record mirrors : Prop := {
  mir_start : ceffs (snd (fst (x_start m)))
              = map code (map Next (cemits (snd (fst (x_start m)))) ++ fin_ev (snd (x_start m)));
  mir_step : forall s now i, i <> IDispose ->
      ceffs (snd (fst (x_step m s now i)))
      = map code (map Next (cemits (snd (fst (x_step m s now i)))) ++ fin_ev (snd (x_step m s now i)));
  mir_disp : forall s now, ceffs (snd (fst (x_step m s now IDispose))) = [] }.

Hypothesis H : mirrors.

Lemma oeffs_app a b : oeffs (a ++ b) = oeffs a ++ oeffs b.
Proof. apply flat_map_app. Qed.

Lemma apply_cmds_oeffs (cs : list (cmd B)) : forall r, oeffs (snd (apply_cmds r cs)) = ceffs cs.
Proof.
  induction cs as [|c t IH]; intros r; cbn [apply_cmds]; [reflexivity|].
  destruct c; cbn;
    try (destruct (mem _ _));
    match goal with |- context [apply_cmds ?r' t] => specialize (IH r'); destruct (apply_cmds r' t) end;
    cbn [fst snd] in *; try exact IH.
  unfold oeffs, ceffs in *. cbn [flat_map app]. now rewrite IH.
Qed.

Lemma apply_cmds_emits_eq (cs : list (cmd B)) : forall r, emits (snd (apply_cmds r cs)) = map Next (cemits cs).
Proof.
  induction cs as [|c t IH]; intros r; cbn [apply_cmds]; [reflexivity|].
  destruct c; cbn;
    try (destruct (mem _ _));
    match goal with |- context [apply_cmds ?r' t] => specialize (IH r'); destruct (apply_cmds r' t) end;
    cbn [fst snd] in *; try exact IH.
  unfold emits, cemits in *. cbn [flat_map app map]. now rewrite IH.
Qed.

Lemma oeffs_unsub l : oeffs (map (@OUnsub B) l) = [].
Proof. induction l; auto. Qed.
Lemma oeffs_cancel l : oeffs (map (@OCancel B) l) = [].
Proof. induction l; auto. Qed.
Lemma release_oeffs r : oeffs (snd (@release B r)) = [].
Proof. unfold release. cbn [snd]. now rewrite oeffs_app, oeffs_unsub, oeffs_cancel. Qed.

Lemma finish_oeffs r f : oeffs (snd (@finish B r f)) = [].
Proof.
  destruct f; cbn [finish]; [reflexivity| |]; pose proof (release_oeffs r) as E;
    destruct (release r) as [r' o]; cbn [snd] in *; exact E.
Qed.

Lemma finish_emits r f : emits (snd (@finish B r f)) = fin_ev f.
Proof.
  destruct f; cbn [finish]; [reflexivity| |]; pose proof (release_emits (B := B) r) as E;
    destruct (release r) as [r' o]; cbn [snd] in *;
    match goal with |- emits (OEmit ?e :: o) = _ => change (e :: emits o = [e]) end; now rewrite E.
Qed.

Lemma oeffs_noemit (o : list (obs B)) :
  oeffs (filter (fun o => match o with OEmit _ => false | _ => true end) o) = oeffs o.
Proof.
  unfold oeffs. induction o as [|x t IH]; [reflexivity|]. destruct x; cbn [filter flat_map app]; rewrite ?IH; reflexivity.
Qed.

Definition ok_group (o : list (obs B)) : Prop := oeffs o = map code (emits o).

Lemma deliver_mirror s r0 now (i : inp A) (X : rstate -> rstate * list (obs B)) :
  (forall r1, oeffs (snd (X r1)) = [] /\ emits (snd (X r1)) = []) -> i <> IDispose ->
  ok_group (snd (let '(s', cs, f) := x_step m s now i in
                 let '(r1, o1) := apply_cmds r0 cs in
                 let '(r2, o2) := X r1 in
                 let '(r3, o3) := finish r2 f in (s', r3, o1 ++ o2 ++ o3))).
Proof.
  intros HX Hi. pose proof (mir_step H s now i Hi) as Hm.
  destruct (x_step m s now i) as [[s' cs] f]. cbn [fst snd] in *.
  pose proof (apply_cmds_oeffs cs r0) as H1. pose proof (apply_cmds_emits_eq cs r0) as H2.
  destruct (apply_cmds r0 cs) as [r1 o1]. cbn [fst snd] in *.
  destruct (HX r1) as [H3 H4]. destruct (X r1) as [r2 o2]. cbn [fst snd] in *.
  pose proof (finish_oeffs r2 f) as H5. pose proof (finish_emits r2 f) as H6.
  destruct (finish r2 f) as [r3 o3]. cbn [fst snd] in *.
  unfold ok_group. rewrite !oeffs_app, !emits_app, H1, H2, H3, H4, H5, H6, Hm. cbn [app].
  now rewrite app_nil_r.
Qed.

Lemma rstep_mirror s r now i : ok_group (snd (rstep m s r now i)).
Proof.
  unfold rstep. destruct (r_stopped r); [reflexivity|].
  destruct i as [k e|tag|].
  - destruct (mem k (r_live r)); [|reflexivity].
    apply (deliver_mirror s r now (ISrc k e)
             (fun r1 => if is_terminal e && mem k (r_live r1)
                        then (RState (remove k (r_live r1)) (r_timers r1) (r_stopped r1), [OUnsub k])
                        else (r1, []))); try discriminate.
    intros r1. destruct (is_terminal e && mem k (r_live r1)); auto.
  - destruct (mem tag (r_timers r)); [|reflexivity].
    apply (deliver_mirror s _ now (ITick tag) (fun r1 => (r1, []))); try discriminate. auto.
  - pose proof (mir_disp H s now) as Hd.
    destruct (x_step m s now IDispose) as [[s' cs] f]. cbn [fst snd] in *.
    pose proof (apply_cmds_oeffs cs r) as H1. destruct (apply_cmds r cs) as [r1 o1]. cbn [fst snd] in *.
    pose proof (release_oeffs r1) as H2. pose proof (release_emits (B := B) r1) as H3.
    destruct (release r1) as [r2 o2]. cbn [fst snd] in *.
    unfold ok_group. now rewrite oeffs_app, emits_app, oeffs_noemit, filter_noemit, H1, Hd, H2, H3.
Qed.

Lemma teffs_app a b : teffs (a ++ b) = teffs a ++ teffs b.
Proof. apply flat_map_app. Qed.

Lemma teffs_tag k (o : list (obs B)) : teffs (map (fun x => (k, x)) o) = map (fun n => (k, n)) (oeffs o).
Proof.
  unfold teffs, oeffs. induction o as [|x t IH]; [reflexivity|].
  destruct x; cbn [map flat_map fst snd app]; rewrite ?IH; reflexivity.
Qed.

Lemma temitted_tag k (o : list (obs B)) : temitted (map (fun x => (k, x)) o) = map (fun e => (k, e)) (emits o).
Proof.
  unfold temitted, emits. induction o as [|x t IH]; [reflexivity|].
  destruct x; cbn [map flat_map fst snd app]; rewrite ?IH; reflexivity.
Qed.

Lemma temitted_app' (a b : list (nat * obs B)) : temitted (a ++ b) = temitted a ++ temitted b.
Proof. apply flat_map_app. Qed.

Lemma group_mirror k o : ok_group o ->
  teffs (map (fun x => (k, x)) o) = map tcode (temitted (map (fun x => (k, x)) o)).
Proof. intros E. rewrite teffs_tag, temitted_tag, E, !map_map. reflexivity. Qed.

Lemma run_from_mirror ins : forall s r k,
  teffs (fst (run_from m s r k ins)) = map tcode (temitted (fst (run_from m s r k ins))).
Proof.
  induction ins as [|[now i] rest IH]; intros s r k; cbn [run_from]; [reflexivity|].
  pose proof (rstep_mirror s r now i) as K. destruct (rstep m s r now i) as [[s' r'] o]. cbn [snd] in K.
  specialize (IH s' r' (S k)). destruct (run_from m s' r' (S k) rest) as [tr rf]. cbn [fst] in *.
  now rewrite teffs_app, temitted_app', (map_app tcode), (group_mirror k o K), IH.
Qed.

Theorem effects_mirror_emissions ins :
  teffs (fst (run m ins)) = map tcode (temitted (fst (run m ins))).
Proof.
  unfold run. pose proof (mir_start H) as Hm. destruct (x_start m) as [[s0 cs] f]. cbn [fst snd] in *.
  pose proof (apply_cmds_oeffs cs (RState [] [] false)) as H1.
  pose proof (apply_cmds_emits_eq cs (RState [] [] false)) as H2.
  destruct (apply_cmds (RState [] [] false) cs) as [r1 o1]. cbn [fst snd] in *.
  pose proof (finish_oeffs r1 f) as H5. pose proof (finish_emits r1 f) as H6.
  destruct (finish r1 f) as [r2 o2]. cbn [fst snd] in *.
  pose proof (run_from_mirror ins s0 r2 1) as G. destruct (run_from m s0 r2 1 ins) as [tr rf]. cbn [fst] in *.
  rewrite teffs_app, temitted_app', (map_app tcode), G. f_equal. apply group_mirror.
  unfold ok_group. rewrite oeffs_app, emits_app, H1, H2, H5, H6, Hm. now rewrite app_nil_r.
Qed.
End Mirror.

(* ------------------------------------------------------------------------ *)
(* cold prefixes preserve the three disciplines                               *)
Section PreFacts.
Context {A B : Type}.

Definition calm_on_next (m : machine A B) : Prop :=
  forall s now k x, snd (x_step m s now (ISrc k (Next x))) = Cont.

Lemma feed_pre_once (m : machine A B) n P : once_at_stop m n P -> calm_on_next m -> forall pre s, P s ->
  cnt_cmd n (snd (fst (feed_pre m s pre))) = (if live (snd (feed_pre m s pre)) then 0 else 1)
  /\ (live (snd (feed_pre m s pre)) = true -> P (fst (fst (feed_pre m s pre)))).
Proof.
  intros H Hcalm. induction pre as [|e t IH]; intros s HP; cbn [feed_pre]; [auto|].
  pose proof (oas_step_cnt _ _ _ H s 0%Z (ISrc 0 e) HP) as Hc.
  pose proof (oas_step_inv _ _ _ H s 0%Z (ISrc 0 e) HP) as Hi.
  assert (Hn : is_terminal e = false -> snd (x_step m s 0%Z (ISrc 0 e)) = Cont)
    by (destruct e; try discriminate; intros _; apply Hcalm).
  destruct (x_step m s 0%Z (ISrc 0 e)) as [[s' cs] f]. cbn [fst snd stops] in *.
  destruct f; cbn [live negb fst snd] in *.
  - destruct (is_terminal e); cbn [fst snd live].
    + rewrite cnt_cmd_app, Hc. auto.
    + destruct (IH s' (Hi eq_refl)) as [I1 I2]. destruct (feed_pre m s' t) as [[s'' cs'] f']. cbn [fst snd] in *.
      rewrite cnt_cmd_app, Hc, I1. auto.
  - destruct (is_terminal e); [cbn; auto|]. discriminate (Hn eq_refl).
  - destruct (is_terminal e); [cbn; auto|]. discriminate (Hn eq_refl).
Qed.

Theorem once_with_pre (m : machine A B) n P pre : once_at_stop m n P -> calm_on_next m ->
  once_at_stop (with_pre m pre) n P.
Proof.
  intros H Hcalm. pose proof (oas_start_cnt _ _ _ H) as Hc. pose proof (oas_start_inv _ _ _ H) as Hi.
  constructor; cbn [with_pre x_start x_step]; try apply H.
  - destruct (x_start m) as [[s0 cs0] f0]. cbn [fst snd] in *.
    destruct (live f0) eqn:Hl; cbn [andb]; [|cbn; now rewrite Hl].
    destruct (subscribes0 cs0); [|cbn; now rewrite Hl].
    destruct (feed_pre_once m n P H Hcalm pre s0 (Hi eq_refl)) as [I1 I2].
    destruct (feed_pre m s0 pre) as [[s1 cs1] f1]. cbn [fst snd] in *. now rewrite cnt_cmd_app, Hc, I1.
  - destruct (x_start m) as [[s0 cs0] f0]. cbn [fst snd] in *.
    destruct (live f0) eqn:Hl; cbn [andb]; [|cbn; rewrite Hl; discriminate].
    destruct (subscribes0 cs0); [|cbn; auto].
    destruct (feed_pre_once m n P H Hcalm pre s0 (Hi eq_refl)) as [I1 I2].
    destruct (feed_pre m s0 pre) as [[s1 cs1] f1]. cbn [fst snd] in *. exact I2.
Qed.

Lemma strip_c_app (a b : list (cmd B)) : strip_c (a ++ b) = strip_c a ++ strip_c b.
Proof. apply filter_app. Qed.

Lemma subscribes0_strip (cs : list (cmd B)) : subscribes0 (strip_c cs) = subscribes0 cs.
Proof.
  unfold subscribes0, strip_c. induction cs as [|c t IH]; [reflexivity|].
  destruct c; cbn [filter keep_c existsb]; rewrite ?IH; reflexivity.
Qed.

Lemma strip_only_effects (cs : list (cmd B)) : strip_c (only_effects cs) = [].
Proof.
  unfold strip_c, only_effects. induction cs as [|c t IH]; [reflexivity|].
  destruct c; cbn [filter keep_c]; exact IH.
Qed.

Lemma feed_dead_sim (m1 m2 : machine A B) R : sim m1 m2 R -> forall pre s1 s2, R s1 s2 ->
  strip_c (snd (feed_dead m1 s1 pre)) = [] /\ strip_c (snd (feed_dead m2 s2 pre)) = []
  /\ R (fst (feed_dead m1 s1 pre)) (fst (feed_dead m2 s2 pre)).
Proof.
  intros H. induction pre as [|e t IH]; intros s1 s2 HR; cbn [feed_dead]; [auto|].
  destruct (sim_step _ _ _ H s1 s2 0%Z (ISrc 0 e) HR) as [Hc [Hf HR']].
  destruct (x_step m1 s1 0%Z (ISrc 0 e)) as [[s1' cs1] f1].
  destruct (x_step m2 s2 0%Z (ISrc 0 e)) as [[s2' cs2] f2]. cbn [fst snd] in *.
  destruct (is_terminal e); cbn [fst snd].
  - rewrite !strip_only_effects. auto.
  - destruct (IH s1' s2' HR') as [I1 [I2 I3]].
    destruct (feed_dead m1 s1' t) as [a1 b1]. destruct (feed_dead m2 s2' t) as [a2 b2]. cbn [fst snd] in *.
    rewrite !strip_c_app, !strip_only_effects, I1, I2. auto.
Qed.

Lemma feed_pre_sim (m1 m2 : machine A B) R : sim m1 m2 R -> forall pre s1 s2, R s1 s2 ->
  strip_c (snd (fst (feed_pre m1 s1 pre))) = strip_c (snd (fst (feed_pre m2 s2 pre)))
  /\ snd (feed_pre m1 s1 pre) = snd (feed_pre m2 s2 pre)
  /\ R (fst (fst (feed_pre m1 s1 pre))) (fst (fst (feed_pre m2 s2 pre))).
Proof.
  intros H. induction pre as [|e t IH]; intros s1 s2 HR; cbn [feed_pre]; [auto|].
  destruct (sim_step _ _ _ H s1 s2 0%Z (ISrc 0 e) HR) as [Hc [Hf HR']].
  destruct (x_step m1 s1 0%Z (ISrc 0 e)) as [[s1' cs1] f1].
  destruct (x_step m2 s2 0%Z (ISrc 0 e)) as [[s2' cs2] f2]. cbn [fst snd] in *. subst f2.
  assert (D : is_terminal e = false -> f1 <> Cont ->
    strip_c (snd (fst (let '(s'', cs') := feed_dead m1 s1' t in (s'', cs1 ++ cs', f1))))
    = strip_c (snd (fst (let '(s'', cs') := feed_dead m2 s2' t in (s'', cs2 ++ cs', f1))))
    /\ snd (let '(s'', cs') := feed_dead m1 s1' t in (s'', cs1 ++ cs', f1))
       = snd (let '(s'', cs') := feed_dead m2 s2' t in (s'', cs2 ++ cs', f1))
    /\ R (fst (fst (let '(s'', cs') := feed_dead m1 s1' t in (s'', cs1 ++ cs', f1))))
         (fst (fst (let '(s'', cs') := feed_dead m2 s2' t in (s'', cs2 ++ cs', f1))))).
  { intros _ _. destruct (feed_dead_sim m1 m2 R H t s1' s2' HR') as [I1 [I2 I3]].
    destruct (feed_dead m1 s1' t) as [a1 b1]. destruct (feed_dead m2 s2' t) as [a2 b2]. cbn [fst snd] in *.
    rewrite !strip_c_app, Hc, I1, I2. auto. }
  destruct f1; cbn [fst snd]; destruct (is_terminal e) eqn:Ht; cbn [fst snd]; auto;
    try (apply D; [reflexivity|discriminate]).
  - rewrite !strip_c_app, Hc. auto.
  - destruct (IH s1' s2' HR') as [I1 [I2 I3]].
    destruct (feed_pre m1 s1' t) as [[a1 b1] c1]. destruct (feed_pre m2 s2' t) as [[a2 b2] c2].
    cbn [fst snd] in *. rewrite !strip_c_app, Hc, I1. auto.
Qed.

Theorem sim_with_pre (m1 m2 : machine A B) R pre : sim m1 m2 R -> sim (with_pre m1 pre) (with_pre m2 pre) R.
Proof.
  intros H. pose proof (sim_start_c _ _ _ H) as Hc. pose proof (sim_start_f _ _ _ H) as Hf.
  pose proof (sim_start_R _ _ _ H) as HR.
  assert (Hs : subscribes0 (snd (fst (x_start m1))) = subscribes0 (snd (fst (x_start m2))))
    by (rewrite <- subscribes0_strip, Hc; apply subscribes0_strip).
  assert (K : strip_c (snd (fst (x_start (with_pre m1 pre)))) = strip_c (snd (fst (x_start (with_pre m2 pre))))
              /\ snd (x_start (with_pre m1 pre)) = snd (x_start (with_pre m2 pre))
              /\ R (fst (fst (x_start (with_pre m1 pre)))) (fst (fst (x_start (with_pre m2 pre))))).
  { cbn [with_pre x_start].
    destruct (x_start m1) as [[s1 cs1] f1]. destruct (x_start m2) as [[s2 cs2] f2]. cbn [fst snd] in *. subst f2.
    rewrite Hs. destruct (live f1 && subscribes0 cs2); cbn [fst snd]; auto.
    destruct (feed_pre_sim m1 m2 R H pre s1 s2 HR) as [I1 [I2 I3]].
    destruct (feed_pre m1 s1 pre) as [[a1 b1] c1]. destruct (feed_pre m2 s2 pre) as [[a2 b2] c2].
    cbn [fst snd] in *. rewrite !strip_c_app, Hc, I1. auto. }
  destruct K as [K1 [K2 K3]]. constructor; auto. apply H.
Qed.
End PreFacts.

Lemma temitted_strip {B} (tr : list (nat * obs B)) : temitted (strip_t tr) = temitted tr.
Proof.
  unfold temitted, strip_t. induction tr as [|[k o] t IH]; [reflexivity|].
  destruct o; cbn [filter snd keep_o flat_map fst]; rewrite ?IH; reflexivity.
Qed.

(* ------------------------------------------------------------------------ *)
(* instances                                                                  *)
Ltac step_cases :=
  repeat match goal with
         | |- forall _, _ => intro
         | i : inp _ |- _ => destruct i as [? [?|?|]|?|]
         | s : (_ * _)%type |- _ => destruct s
         | o : option _ |- _ => destruct o
         | b : bool |- _ => destruct b
         | u : unit |- _ => destruct u
         end.

(* using: the resource is released exactly once, at the stopping instant *)
Lemma using_once obf sched :
  once_at_stop (x_using (Ok true) obf sched) E_RELEASED (fun s => fst s = true).
Proof.
  constructor; cbn [x_using x_start x_step].
  - destruct obf as [[]|e]; unfold using_throw; destruct sched; reflexivity.
  - destruct obf as [[]|e]; unfold using_throw; destruct sched; cbn; auto.
  - intros [has pend] now i HP. cbn in HP. subst has. destruct i as [k [x|e|]|tag|]; try reflexivity.
    destruct pend; reflexivity.
  - intros [has pend] now i HP Hs. cbn in HP. subst has. destruct i as [k [x|e|]|tag|]; try reflexivity.
    destruct pend; reflexivity.
Qed.

Lemma finally_action_once : once_at_stop x_finally_action E_FINALLY (fun _ => True).
Proof. constructor; cbn; auto; intros s now i _; destruct i as [k [x|e|]|tag|]; reflexivity. Qed.

Lemma do_on_dispose_once : once_at_stop x_do_on_dispose E_ON_DISPOSE (fun _ => True).
Proof. constructor; cbn; auto; intros s now i _; destruct i as [k [x|e|]|tag|]; reflexivity. Qed.

Lemma do_finally_once : once_at_stop x_do_finally E_FINALLY (fun flag => flag = false).
Proof.
  constructor; cbn [x_do_finally x_start x_step fst snd live]; auto.
  - intros s now i ->. destruct i as [k [x|e|]|tag|]; reflexivity.
  - intros s now i -> Hs. destruct i as [k [x|e|]|tag|]; try reflexivity; discriminate.
Qed.

(* without the guards the action runs twice at a terminal notification *)
Lemma do_finally_needs_guard :
  cnt_tr E_FINALLY (fst (run x_do_finally_unguarded [(0%Z, ISrc 0 Done)])) = 2.
Proof. vm_compute. reflexivity. Qed.

(* transparency: with non-raising callbacks every variant is the identity on
   the notification sequence and on the subscribe/unsubscribe/timer instants *)
Definition calm1 (f : option (Z -> res unit)) : Prop := forall g x, f = Some g -> g x = Ok tt.
Definition calm0 (f : option (res unit)) : Prop := forall g, f = Some g -> g = Ok tt.

Ltac sim_id :=
  constructor; [reflexivity|reflexivity|exact I|];
  intros s1 s2 now i _; destruct i as [k [x|e|]|tag|]; cbn; auto.

Lemma using_sim has sched : sim (x_using (Ok has) (Ok tt) sched) x_id (fun s1 _ => snd s1 = None).
Proof.
  constructor; [destruct has; reflexivity|reflexivity|reflexivity|].
  intros [h pend] s2 now i HR. cbn in HR. subst pend.
  destruct i as [k [x|e|]|tag|]; destruct h; cbn; auto.
Qed.

Lemma finally_action_sim : sim x_finally_action x_id (fun _ _ => True).
Proof. sim_id. Qed.
Lemma do_finally_sim : sim x_do_finally x_id (fun _ _ => True).
Proof. sim_id; destruct s1; cbn; auto. Qed.
Lemma do_on_dispose_sim : sim x_do_on_dispose x_id (fun _ _ => True).
Proof. sim_id. Qed.
Lemma do_on_subscribe_sim : sim (x_do_on_subscribe (Ok tt)) x_id (fun _ _ => True).
Proof. sim_id. Qed.
Lemma do_on_terminate_sim : sim (x_do_on_terminate (Ok tt)) x_id (fun _ _ => True).
Proof. sim_id. Qed.
(* after_terminate may even raise: its exception is dropped *)
Lemma do_after_terminate_sim f : sim (x_do_after_terminate f) x_id (fun _ _ => True).
Proof. sim_id. Qed.
Lemma do_after_next_sim f : (forall x, f x = Ok tt) -> sim (x_do_after_next f) x_id (fun _ _ => True).
Proof. intros Hf. sim_id. now rewrite Hf. Qed.

Lemma do_action_sim fn fe fd : calm1 fn -> calm1 fe -> calm0 fd ->
  sim (x_do_action fn fe fd) x_id (fun _ _ => True).
Proof.
  intros Hn He Hd. sim_id.
  - destruct fn as [g|]; cbn; auto. rewrite (Hn g x eq_refl). cbn. auto.
  - destruct fe as [g|]; cbn; auto. rewrite (He g e eq_refl). cbn. auto.
  - destruct fd as [g|]; cbn; auto. rewrite (Hd g eq_refl). cbn. auto.
Qed.

(* do_action with all three callbacks, none raising: the callbacks observe
   exactly the notifications delivered downstream, in order, at their instants *)
Definition do_code (e : ev Z) : Z :=
  match e with Next x => e_do_next x | Err x => e_do_err x | Done => E_DO_DONE end.

Lemma do_action_mirrors fn fe : (forall x, fn x = Ok tt) -> (forall x, fe x = Ok tt) ->
  mirrors (x_do_action (Some fn) (Some fe) (Some (Ok tt))) do_code.
Proof.
  intros Hn He. constructor; [reflexivity| |reflexivity].
  intros s now i Hi. destruct i as [k [x|e|]|tag|]; cbn; try reflexivity; try congruence.
  - rewrite Hn. reflexivity.
  - rewrite He. reflexivity.
Qed.

(* routing of a raising callback: on_error(exception of the callback) and no
   other emission, at that instant *)
Lemma do_next_raises fn fe fd s now k x e : fn x = Raise e ->
  x_step (x_do_action (Some fn) fe fd) s now (ISrc k (Next x)) = (s, [CEffect (e_do_next x)], Fail e).
Proof. intros Hf. cbn. now rewrite Hf. Qed.
Lemma do_err_raises fn fe fd s now k x e : fe x = Raise e ->
  x_step (x_do_action fn (Some fe) fd) s now (ISrc k (Err x)) = (s, [CEffect (e_do_err x)], Fail e).
Proof. intros Hf. cbn. now rewrite Hf. Qed.
Lemma do_done_raises fn fe s now k e :
  x_step (x_do_action fn fe (Some (Raise e))) s now (ISrc k Done) = (s, [CEffect E_DO_DONE], Fail e).
Proof. reflexivity. Qed.
Lemma do_after_next_raises f s now k x e : f x = Raise e ->
  x_step (x_do_after_next f) s now (ISrc k (Next x)) = (s, [CEmit x; CEffect (e_after_next x)], Fail e).
Proof. intros Hf. cbn. now rewrite Hf. Qed.
Lemma do_on_terminate_raises s now k e :
  x_step (x_do_on_terminate (Raise e)) s now (ISrc k Done) = (s, [CEffect E_TERMINATE], Fail e)
  /\ forall x, x_step (x_do_on_terminate (Raise e)) s now (ISrc k (Err x)) = (s, [CEffect E_TERMINATE], Fail e).
Proof. split; reflexivity. Qed.
Lemma do_on_subscribe_raises e : x_start (x_do_on_subscribe (Raise e)) = (tt, [CEffect E_SUBSCRIBE], Fail e).
Proof. reflexivity. Qed.

(* ------------------------------------------------------------------------ *)
(* statements in observable terms                                             *)
Section Observable.
Context {A B : Type} (m : machine A B) (n : Z) (P : x_state m -> Prop).

(* exactly once, and exactly when a terminal notification has been emitted or
   the subscriber has disposed *)
Theorem once_observable : once_at_stop m n P -> forall ins,
  cnt_tr n (fst (run m ins))
  = if ended (emitted (fst (run m ins))) || has_dispose ins then 1 else 0.
Proof. intros H ins. rewrite (effect_once m n P H ins), (stopped_iff m ins). reflexivity. Qed.

(* ... at every moment: the trace after a prefix [a] of the inputs is a prefix
   of the final trace, the effect has happened in it iff the subscription has
   terminated or been disposed within [a], and it never happens again *)
Theorem once_timing : once_at_stop m n P -> forall a b, exists tr',
  fst (run m (a ++ b)) = fst (run m a) ++ tr'
  /\ cnt_tr n (fst (run m a)) = (if ended (emitted (fst (run m a))) || has_dispose a then 1 else 0)
  /\ (ended (emitted (fst (run m a))) || has_dispose a = true -> cnt_tr n tr' = 0).
Proof.
  intros H a b. destruct (run_prefix m a b) as [tr' E]. exists tr'. split; [exact E|].
  pose proof (once_observable H a) as Ha. split; [exact Ha|].
  intros Hs. pose proof (effect_once m n P H (a ++ b)) as Hab.
  rewrite E, cnt_tr_app, Ha, Hs in Hab. destruct (r_stopped (snd (run m (a ++ b)))); lia.
Qed.
End Observable.

(* transparent machines emit what the identity emits, with the same tags *)
Lemma sim_temitted {A B} (m1 m2 : machine A B) R : sim m1 m2 R -> forall ins,
  temitted (fst (run m1 ins)) = temitted (fst (run m2 ins)).
Proof.
  intros H ins. destruct (run_sim m1 m2 R H ins) as [E _].
  rewrite <- (temitted_strip (fst (run m1 ins))), E. apply temitted_strip.
Qed.

(* do_action(on_next) with an ARBITRARY (possibly raising) callback behaves, on
   the notification sequence, like map(lambda x: (callback(x), x)[1]) *)
Definition tapf (fn : Z -> res unit) (x : Z) : res Z := match fn x with Ok _ => Ok x | Raise e => Raise e end.

Lemma do_next_sim_map fn : sim (x_do_action (Some fn) None None) (lift (op_map (tapf fn))) (fun _ _ => True).
Proof.
  constructor; [reflexivity|reflexivity|exact I|].
  intros s1 s2 now i _. destruct i as [k [x|e|]|tag|]; cbn; auto.
  unfold tapf. destruct (fn x) as [[]|e]; cbn; auto.
Qed.

Theorem do_next_closed_form fn xs t :
  temitted (fst (run (x_do_action (Some fn) None None) (feed0 (events xs t))))
  = nexts (fst (until_raise (tapf fn) 1 xs)) ++ close (S (length xs)) t (snd (until_raise (tapf fn) 1 xs)).
Proof.
  rewrite (sim_temitted _ _ _ (do_next_sim_map fn)), lift_exec. apply map_raise_spec.
Qed.

(* identity machine = lifted identity Mealy operator: closed form of what
   "unchanged sequence" means for a conforming source *)
Lemma id_closed_form xs t :
  temitted (fst (run x_id (feed0 (events xs t))))
  = nexts (indexed 1 xs) ++ tterm (S (length xs)) t.
Proof.
  assert (S0 : sim x_id (lift (op_map (fun x : Z => Ok x))) (fun _ _ => True)).
  { constructor; [reflexivity|reflexivity|exact I|].
    intros s1 s2 now i _. destruct i as [k [x|e|]|tag|]; cbn; auto. }
  rewrite (sim_temitted _ _ _ S0), lift_exec, map_raise_spec.
  assert (U : forall k, until_raise (fun x : Z => Ok x) k xs = (indexed k xs, None)).
  { induction xs as [|x r IH]; intros k; cbn; [reflexivity|]. now rewrite IH. }
  rewrite U. reflexivity.
Qed.

(* none of the finalizing operators terminates on an element *)
Lemma using_calm rf obf sched : calm_on_next (x_using rf obf sched).
Proof. intros [has pend] now k x. reflexivity. Qed.
Lemma finally_action_calm : calm_on_next x_finally_action.
Proof. intros s now k x. reflexivity. Qed.
Lemma do_finally_calm : calm_on_next x_do_finally.
Proof. intros s now k x. reflexivity. Qed.
Lemma do_on_dispose_calm : calm_on_next x_do_on_dispose.
Proof. intros s now k x. reflexivity. Qed.
