(* C39 -- the trust base of "behaves exactly like" made explicit, and the converse gap.

   Ops/FluentProof.v proves that method and direct call reach the same canonical operator
   function with the same bound arguments.  Here this is lifted to behaviour under ONE explicit
   assumption, a Section variable: the observable an operator call produces is a function
   [op_sem] of (canonical operator name, bound arguments, source) only.  After the Section the
   theorems quantify over EVERY such function. *)
From Coq Require Import List String Bool.
From RxVerif Require Import Ops.Fluent Ops.FluentFacts Gen.FluentTable Ops.FluentProof.
Import ListNotations.
Open Scope string_scope.

Section Sem.
Variable O : Type.                                   (* observables *)
Variable op_sem : string -> benv -> O -> O.          (* ops.<canonical>(<bound args>)(source) *)

(* source.NAME(call): the translated method body applied to the source *)
Definition meth_sem (e : entry) (c : call) (x : O) : option O :=
  option_map (fun r => op_sem (rop r) (renv r) x) (meth39 e c).
(* source.pipe(ops.NAME(call)) = ops.NAME(call)(source) *)
Definition pipe_sem (n : string) (c : call) (x : O) : option O :=
  option_map (fun r => op_sem (rop r) (renv r) x) (dir39 n c).

Lemma behaves : forall e, In e fluent_table -> ~ In (ename e) known_mismatch ->
  forall c b x, bind (esig e) c = Some b ->
  meth_sem e c x = pipe_sem (ename e) c x /\ meth_sem e c x <> None.
Proof.
  intros e Hin Hn c b x Hb. destruct (forwarding e Hin Hn c b Hb) as [r [H1 H2]].
  unfold meth_sem, pipe_sem. rewrite H1, H2. split; [reflexivity | discriminate].
Qed.

(* outside the narrower ones the two also fail (TypeError = None) on the same calls *)
Lemma behaves_exact : forall e, In e fluent_table -> ~ In (ename e) known_mismatch ->
  ~ In (ename e) narrower_than_operator ->
  forall c x, meth_sem e c x = pipe_sem (ename e) c x.
Proof.
  intros e Hin Hn Hw c x. unfold meth_sem, pipe_sem. rewrite (exactness e Hin Hn Hw c). reflexivity.
Qed.

(* parameter-name-only mismatches: calls without keywords behave alike *)
Lemma behaves_positional : forall e, In e fluent_table -> In (ename e) keyword_name_only ->
  forall c b x, ckws c = [] -> bind (esig e) c = Some b ->
  meth_sem e c x = pipe_sem (ename e) c x /\ meth_sem e c x <> None.
Proof.
  intros e Hin Hl c b x Hk Hb. destruct (positional_forwarding e Hin Hl c b Hk Hb) as [r [H1 H2]].
  unfold meth_sem, pipe_sem. rewrite H1, H2. split; [reflexivity | discriminate].
Qed.
End Sem.

(* the converse gap: the operators of reactivex.operators that have NO fluent method (the
   property does not ask for one); closed computation on the generated tables *)
Definition operators_without_method : list string := ["tap"; "zip_with_list"].

Lemma table_no_method :
  map oname (filter (fun o => negb (mem (oname o) (map ename fluent_table))) op_table)
  = operators_without_method.
Proof. vm_cast_no_check (eq_refl operators_without_method). Qed.
