(* C13: amb against its abstract specification, and the pairing property of zip. *)
From Coq Require Import Permutation.
From RxVerif Require Import Base.Prelude Ops.Machine Ops.MachineFacts Ops.Multi Ops.MultiFacts
  Ops.RunLemmas Ops.Combinators Ops.MergeFacts.

Local Arguments Nat.ltb : simpl never.
Local Arguments Nat.leb : simpl never.

Section Amb.
Context {A : Type}.

(* SPEC of amb over n sources: the first source to notify is mirrored --
   including its termination -- and all others are ignored from then on *)
Fixpoint amb_spec (n : nat) (choice : option nat) (pos : nat) (ins : list (Z * inp A)) : list (nat * ev A) :=
  match ins with
  | [] => []
  | (_, ISrc k e) :: t =>
      if match choice with None => Nat.ltb k n | Some c => Nat.eqb k c end then
        match e with
        | Next x => (pos, Next x) :: amb_spec n (Some k) (S pos) t
        | Err x => [(pos, Err x)]
        | Done => [(pos, Done)]
        end
      else amb_spec n choice (S pos) t
  | (_, ITick _) :: t => amb_spec n choice (S pos) t
  | (_, IDispose) :: _ => []
  end.

(* unsubscribing every source but k from a duplicate-free live list leaves [k] *)
Lemma apply_unsub_others (k : nat) (others : list nat) : forall live ts,
  NoDup live -> In k live -> ~ In k others -> (forall j, In j live -> j = k \/ In j others) ->
  fst (apply_cmds (B:=A) (RState live ts false) (map CUnsub others)) = RState [k] ts false.
Proof.
  induction others as [|j rest IH]; intros live ts Hnd Hk Hnot Hcov.
  - cbn. f_equal.
    destruct live as [|a l]; [destruct Hk|].
    assert (a = k) by (destruct (Hcov a (or_introl eq_refl)) as [H|[]]; exact H). subst a.
    destruct l as [|b l']; [reflexivity|].
    exfalso. destruct (Hcov b (or_intror (or_introl eq_refl))) as [H|[]]. subst b.
    inversion Hnd as [|? ? Hn _]. apply Hn. left. reflexivity.
  - cbn [map apply_cmds r_live r_timers r_stopped].
    assert (Hjk : j <> k) by (intros ->; apply Hnot; left; reflexivity).
    destruct (mem j live) eqn:Hm.
    + destruct (remove_nodup j live Hnd) as [Hnd2 Hnotin].
      specialize (IH (remove j live) ts Hnd2 (in_remove_other j k live Hjk Hk)
                    (fun H => Hnot (or_intror H))).
      destruct (apply_cmds (RState (remove j live) ts false) (map CUnsub rest)) as [r2 o2] eqn:E.
      cbn [fst] in *. apply IH.
      intros x Hx. destruct (Hcov x (remove_in _ _ _ Hx)) as [H|[H|H]]; auto.
      subst x. contradiction.
    + specialize (IH live ts Hnd Hk (fun H => Hnot (or_intror H))).
      destruct (apply_cmds (RState live ts false) (map CUnsub rest)) as [r2 o2] eqn:E.
      cbn [fst] in *. apply IH.
      intros x Hx. destruct (Hcov x Hx) as [H|[H|H]]; auto.
      subst x. apply mem_false_notin in Hm. contradiction.
Qed.

Lemma apply_unsub_noemit (k : nat) (others : list nat) (r : rstate) :
  temitted (map (fun x => (k, x)) (snd (apply_cmds (B:=A) r (map CUnsub others)))) = [].
Proof. rewrite apply_cmds_temitted. induction others; [reflexivity|exact IHothers]. Qed.

Lemma apply_cmds_app (a b : list (cmd A)) : forall r,
  apply_cmds r (a ++ b)
  = (fst (apply_cmds (fst (apply_cmds r a)) b), snd (apply_cmds r a) ++ snd (apply_cmds (fst (apply_cmds r a)) b)).
Proof.
  induction a as [|c t IH]; intros r.
  - cbn. destruct (apply_cmds r b); reflexivity.
  - cbn [app apply_cmds].
    destruct c; cbn; try (destruct (mem _ _));
      match goal with |- context [apply_cmds ?r' (t ++ b)] => rewrite (IH r'); destruct (apply_cmds r' t) end;
      cbn [fst snd]; rewrite ?app_assoc; reflexivity.
Qed.

Lemma mem_rev_seq k n : mem k (rev (seq 0 n)) = Nat.ltb k n.
Proof.
  destruct (Nat.ltb_spec k n) as [H|H].
  - assert (In k (rev (seq 0 n))) by (apply in_rev; rewrite rev_involutive; apply in_seq; lia).
    destruct (mem k (rev (seq 0 n))) eqn:E; [reflexivity|]. apply mem_false_notin in E. contradiction.
  - apply notin_mem_false. intros Hin. apply in_rev in Hin. rewrite rev_involutive in Hin.
    apply in_seq in Hin. lia.
Qed.

Lemma amb_chosen_from n (ins : list (Z * inp A)) : forall c pos,
  temitted (fst (run_from (x_amb n) (Some c) (RState [c] [] false) pos ins)) = amb_spec n (Some c) pos ins.
Proof.
  induction ins as [|[now i] rest IH]; intros c pos; [reflexivity|].
  rewrite temitted_run_cons. cbn [amb_spec].
  destruct i as [k e|tag|].
  - destruct (Nat.eqb_spec k c) as [->|Hne].
    + destruct e as [x|err|].
      * assert (E : rstep (x_amb n) (Some c) (RState [c] [] false) now (ISrc c (Next x))
                    = (Some c, RState [c] [] false, [OEmit (Next x)])).
        { unfold rstep. cbn. rewrite !Nat.eqb_refl. cbn. reflexivity. }
        rewrite E. cbn [fst snd]. rewrite IH. reflexivity.
      * destruct (rstep_fin (x_amb n) (Some c) (RState [c] [] false) now (ISrc c (Err err)) pos) as [E1 E2];
          [reflexivity|cbn; now rewrite Nat.eqb_refl|cbn; rewrite Nat.eqb_refl; discriminate|].
        rewrite E1, (run_from_stopped _ _ _ _ _ E2). cbn. rewrite Nat.eqb_refl. reflexivity.
      * destruct (rstep_fin (x_amb n) (Some c) (RState [c] [] false) now (ISrc c Done) pos) as [E1 E2];
          [reflexivity|cbn; now rewrite Nat.eqb_refl|cbn; rewrite Nat.eqb_refl; discriminate|].
        rewrite E1, (run_from_stopped _ _ _ _ _ E2). cbn. rewrite Nat.eqb_refl. reflexivity.
    + assert (E : rstep (x_amb n) (Some c) (RState [c] [] false) now (ISrc k e)
                  = (Some c, RState [c] [] false, [])).
      { unfold rstep. cbn. destruct (Nat.eqb_spec k c); [congruence|]. reflexivity. }
      rewrite E. cbn [fst snd]. rewrite IH. reflexivity.
  - assert (E : rstep (x_amb n) (Some c) (RState [c] [] false) now (ITick tag)
                = (Some c, RState [c] [] false, [])) by reflexivity.
    rewrite E. cbn [fst snd]. rewrite IH. reflexivity.
  - unfold rstep. cbn. rewrite run_from_stopped by reflexivity. reflexivity.
Qed.

Lemma filter_others k n : ~ In k (filter (fun j => negb (Nat.eqb j k)) (seq 0 n)).
Proof. intros H. apply filter_In in H. destruct H as [_ H]. rewrite Nat.eqb_refl in H. discriminate. Qed.

Lemma amb_open_from n (ins : list (Z * inp A)) : forall pos,
  temitted (fst (run_from (x_amb n) None (RState (rev (seq 0 n)) [] false) pos ins)) = amb_spec n None pos ins.
Proof.
  induction ins as [|[now i] rest IH]; intros pos; [reflexivity|].
  rewrite temitted_run_cons. cbn [amb_spec].
  destruct i as [k e|tag|].
  - destruct (Nat.ltb_spec k n) as [Hlt|Hge].
    + assert (Hmem : mem k (rev (seq 0 n)) = true) by (rewrite mem_rev_seq; now apply Nat.ltb_lt).
      set (others := filter (fun j => negb (Nat.eqb j k)) (seq 0 n)).
      assert (Hrel : fst (apply_cmds (B:=A) (RState (rev (seq 0 n)) [] false) (map CUnsub others))
                     = RState [k] [] false).
      { apply apply_unsub_others.
        - apply NoDup_rev, seq_NoDup.
        - apply in_rev. rewrite rev_involutive. apply in_seq. lia.
        - apply filter_others.
        - intros j Hj. apply in_rev in Hj. rewrite rev_involutive in Hj.
          destruct (Nat.eq_dec j k) as [->|Hne]; [left; reflexivity|right].
          apply filter_In. split; [exact Hj|]. destruct (Nat.eqb_spec j k); [congruence|reflexivity]. }
      destruct e as [x|err|].
      * assert (E : rstep (x_amb n) None (RState (rev (seq 0 n)) [] false) now (ISrc k (Next x))
                    = (Some k, RState [k] [] false,
                       snd (apply_cmds (B:=A) (RState (rev (seq 0 n)) [] false) (map CUnsub others)) ++ [OEmit (Next x)])).
        { unfold rstep. cbn [r_stopped r_live]. rewrite Hmem.
          cbn [x_amb x_step]. rewrite Nat.eqb_refl. fold others.
          rewrite apply_cmds_app, Hrel. cbn [fst snd apply_cmds is_terminal andb finish].
          rewrite !app_nil_r. reflexivity. }
        rewrite E. cbn [fst snd]. rewrite map_app, temitted_app', apply_unsub_noemit.
        rewrite amb_chosen_from. reflexivity.
      * destruct (rstep_fin (x_amb n) None (RState (rev (seq 0 n)) [] false) now (ISrc k (Err err)) pos) as [E1 E2];
          [reflexivity|exact Hmem|cbn; rewrite Nat.eqb_refl; discriminate|].
        rewrite E1, (run_from_stopped _ _ _ _ _ E2). cbn [x_amb x_step]. rewrite Nat.eqb_refl. cbn [fst snd].
        fold others. unfold cemits. rewrite flat_map_concat_map, map_map. cbn.
        assert (Hc : concat (map (fun _ : nat => @nil A) others) = []) by (induction others; auto).
        rewrite Hc. reflexivity.
      * destruct (rstep_fin (x_amb n) None (RState (rev (seq 0 n)) [] false) now (ISrc k Done) pos) as [E1 E2];
          [reflexivity|exact Hmem|cbn; rewrite Nat.eqb_refl; discriminate|].
        rewrite E1, (run_from_stopped _ _ _ _ _ E2). cbn [x_amb x_step]. rewrite Nat.eqb_refl. cbn [fst snd].
        fold others. unfold cemits. rewrite flat_map_concat_map, map_map. cbn.
        assert (Hc : concat (map (fun _ : nat => @nil A) others) = []) by (induction others; auto).
        rewrite Hc. reflexivity.
    + assert (Hmem : mem k (rev (seq 0 n)) = false).
      { rewrite mem_rev_seq. destruct (Nat.ltb_spec k n); [lia|reflexivity]. }
      assert (E : rstep (x_amb n) None (RState (rev (seq 0 n)) [] false) now (ISrc k e)
                  = (None, RState (rev (seq 0 n)) [] false, [])).
      { unfold rstep. cbn [r_stopped r_live]. now rewrite Hmem. }
      rewrite E. cbn [fst snd]. rewrite IH. reflexivity.
  - assert (E : rstep (x_amb n) None (RState (rev (seq 0 n)) [] false) now (ITick tag)
                = (None, RState (rev (seq 0 n)) [] false, [])) by reflexivity.
    rewrite E. cbn [fst snd]. rewrite IH. reflexivity.
  - unfold rstep. cbn [r_stopped x_amb x_step apply_cmds fst snd].
    rewrite run_from_stopped by reflexivity. cbn [fst]. rewrite app_nil_r.
    cbn [filter app]. apply release_temitted.
Qed.

(* REFINEMENT: for every number of sources and EVERY input sequence *)
Theorem amb_refines_spec n (ins : list (Z * inp A)) :
  temitted (fst (run (x_amb n) ins)) = amb_spec n None 1 ins.
Proof.
  rewrite run_unfold. cbn [fst]. rewrite temitted_app'.
  unfold start_state, start_obs. cbn [x_amb x_start].
  assert (E : forall l r, apply_cmds (B:=A) r (map CSub l)
              = (RState (r_live r ++ l) (r_timers r) (r_stopped r), map OSub l)).
  { induction l as [|j t IHl]; intros r.
    - destruct r; cbn. now rewrite app_nil_r.
    - cbn [map apply_cmds]. rewrite IHl. cbn. now rewrite <- app_assoc. }
  rewrite E. cbn [fst snd finish app r_live r_timers r_stopped].
  assert (T : temitted (map (fun x => (0%nat, x)) (map (@OSub A) (rev (seq 0 n)) ++ [])) = []).
  { rewrite app_nil_r. generalize (rev (seq 0 n)). induction l; [reflexivity|exact IHl]. }
  rewrite T. cbn [app]. apply amb_open_from.
Qed.
End Amb.
