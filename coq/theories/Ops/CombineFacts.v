(* C13: amb against its abstract specification, and the pairing property of zip. *)
From Coq Require Import Permutation.
From RxVerif Require Import Base.Prelude Ops.Machine Ops.MachineFacts Ops.Multi Ops.MultiFacts
  Ops.RunLemmas Ops.Combinators Ops.MergeFacts.

Local Arguments Nat.ltb : simpl never.
Local Arguments Nat.leb : simpl never.

Section Amb.
Context {A : Type}.

(* SPEC of amb over n sources: the first source to notify is mirrored --
   including its termination -- and all others are ignored from then on *)
Fixpoint amb_spec (n : nat) (choice : option nat) (pos : nat) (ins : list (Z * inp A)) : list (nat * ev A) :=
  match ins with
  | [] => []
  | (_, ISrc k e) :: t =>
      if match choice with None => Nat.ltb k n | Some c => Nat.eqb k c end then
        match e with
        | Next x => (pos, Next x) :: amb_spec n (Some k) (S pos) t
        | Err x => [(pos, Err x)]
        | Done => [(pos, Done)]
        end
      else amb_spec n choice (S pos) t
  | (_, ITick _) :: t => amb_spec n choice (S pos) t
  | (_, IDispose) :: _ => []
  end.

(* unsubscribing every source but k from a duplicate-free live list leaves [k] *)
Lemma apply_unsub_others (k : nat) (others : list nat) : forall live ts,
  NoDup live -> In k live -> ~ In k others -> (forall j, In j live -> j = k \/ In j others) ->
  fst (apply_cmds (B:=A) (RState live ts false) (map CUnsub others)) = RState [k] ts false.
Proof.
  induction others as [|j rest IH]; intros live ts Hnd Hk Hnot Hcov.
  - cbn. f_equal.
    destruct live as [|a l]; [destruct Hk|].
    assert (a = k) by (destruct (Hcov a (or_introl eq_refl)) as [H|[]]; exact H). subst a.
    destruct l as [|b l']; [reflexivity|].
    exfalso. destruct (Hcov b (or_intror (or_introl eq_refl))) as [H|[]]. subst b.
    inversion Hnd as [|? ? Hn _]. apply Hn. left. reflexivity.
  - cbn [map apply_cmds r_live r_timers r_stopped].
    assert (Hjk : j <> k) by (intros ->; apply Hnot; left; reflexivity).
    destruct (mem j live) eqn:Hm.
    + destruct (remove_nodup j live Hnd) as [Hnd2 Hnotin].
      specialize (IH (remove j live) ts Hnd2 (in_remove_other j k live Hjk Hk)
                    (fun H => Hnot (or_intror H))).
      destruct (apply_cmds (RState (remove j live) ts false) (map CUnsub rest)) as [r2 o2] eqn:E.
      cbn [fst] in *. apply IH.
      intros x Hx. destruct (Hcov x (remove_in _ _ _ Hx)) as [H|[H|H]]; auto.
      subst x. contradiction.
    + specialize (IH live ts Hnd Hk (fun H => Hnot (or_intror H))).
      destruct (apply_cmds (RState live ts false) (map CUnsub rest)) as [r2 o2] eqn:E.
      cbn [fst] in *. apply IH.
      intros x Hx. destruct (Hcov x Hx) as [H|[H|H]]; auto.
      subst x. apply mem_false_notin in Hm. contradiction.
Qed.

Lemma apply_unsub_noemit (k : nat) (others : list nat) (r : rstate) :
  temitted (map (fun x => (k, x)) (snd (apply_cmds (B:=A) r (map CUnsub others)))) = [].
Proof. rewrite apply_cmds_temitted. induction others; [reflexivity|exact IHothers]. Qed.

Lemma apply_cmds_app (a b : list (cmd A)) : forall r,
  apply_cmds r (a ++ b)
  = (fst (apply_cmds (fst (apply_cmds r a)) b), snd (apply_cmds r a) ++ snd (apply_cmds (fst (apply_cmds r a)) b)).
Proof.
  induction a as [|c t IH]; intros r.
  - cbn. destruct (apply_cmds r b); reflexivity.
  - cbn [app apply_cmds].
    destruct c; cbn; try (destruct (mem _ _));
      match goal with |- context [apply_cmds ?r' (t ++ b)] => rewrite (IH r'); destruct (apply_cmds r' t) end;
      cbn [fst snd]; rewrite ?app_assoc; reflexivity.
Qed.

Lemma mem_rev_seq k n : mem k (rev (seq 0 n)) = Nat.ltb k n.
Proof.
  destruct (Nat.ltb_spec k n) as [H|H].
  - assert (In k (rev (seq 0 n))) by (apply -> in_rev; apply in_seq; lia).
    destruct (mem k (rev (seq 0 n))) eqn:E; [reflexivity|]. apply mem_false_notin in E. contradiction.
  - apply notin_mem_false. intros Hin. apply in_rev in Hin.
    apply in_seq in Hin. lia.
Qed.

Lemma amb_chosen_from n (ins : list (Z * inp A)) : forall c pos,
  temitted (fst (run_from (x_amb n) (Some c) (RState [c] [] false) pos ins)) = amb_spec n (Some c) pos ins.
Proof.
  induction ins as [|[now i] rest IH]; intros c pos; [reflexivity|].
  rewrite temitted_run_cons. cbn [amb_spec].
  destruct i as [k e|tag|].
  - destruct (Nat.eqb_spec k c) as [->|Hne].
    + destruct e as [x|err|].
      * assert (E : rstep (x_amb (A:=A) n) (Some c) (RState [c] [] false) now (ISrc c (Next x))
                    = (Some c, RState [c] [] false, [OEmit (Next x)])).
        { unfold rstep. cbn. rewrite !Nat.eqb_refl. cbn. reflexivity. }
        rewrite E. cbn [fst snd]. rewrite IH. reflexivity.
      * destruct (rstep_fin (x_amb (A:=A) n) (Some c) (RState [c] [] false) now (ISrc c (Err err)) pos) as [E1 E2];
          [reflexivity|cbn; now rewrite Nat.eqb_refl|cbn; rewrite Nat.eqb_refl; discriminate|].
        rewrite E1, (run_from_stopped _ _ _ _ _ E2). cbn. rewrite Nat.eqb_refl. reflexivity.
      * destruct (rstep_fin (x_amb (A:=A) n) (Some c) (RState [c] [] false) now (ISrc c Done) pos) as [E1 E2];
          [reflexivity|cbn; now rewrite Nat.eqb_refl|cbn; rewrite Nat.eqb_refl; discriminate|].
        rewrite E1, (run_from_stopped _ _ _ _ _ E2). cbn. rewrite Nat.eqb_refl. reflexivity.
    + assert (E : rstep (x_amb (A:=A) n) (Some c) (RState [c] [] false) now (ISrc k e)
                  = (Some c, RState [c] [] false, [])).
      { unfold rstep. cbn. destruct (Nat.eqb_spec k c); [congruence|]. reflexivity. }
      rewrite E. cbn [fst snd]. rewrite IH. reflexivity.
  - assert (E : rstep (x_amb (A:=A) n) (Some c) (RState [c] [] false) now (ITick tag)
                = (Some c, RState [c] [] false, [])) by reflexivity.
    rewrite E. cbn [fst snd]. rewrite IH. reflexivity.
  - unfold rstep. cbn. rewrite run_from_stopped by reflexivity. reflexivity.
Qed.

Lemma filter_others k n : ~ In k (filter (fun j => negb (Nat.eqb j k)) (seq 0 n)).
Proof. intros H. apply filter_In in H. destruct H as [_ H]. rewrite Nat.eqb_refl in H. discriminate. Qed.

Lemma amb_open_from n (ins : list (Z * inp A)) : forall pos,
  temitted (fst (run_from (x_amb n) None (RState (rev (seq 0 n)) [] false) pos ins)) = amb_spec n None pos ins.
Proof.
  induction ins as [|[now i] rest IH]; intros pos; [reflexivity|].
  rewrite temitted_run_cons. cbn [amb_spec].
  destruct i as [k e|tag|].
  - destruct (Nat.ltb_spec k n) as [Hlt|Hge].
    + assert (Hmem : mem k (rev (seq 0 n)) = true) by (rewrite mem_rev_seq; now apply Nat.ltb_lt).
      set (others := filter (fun j => negb (Nat.eqb j k)) (seq 0 n)).
      assert (Hrel : fst (apply_cmds (B:=A) (RState (rev (seq 0 n)) [] false) (map CUnsub others))
                     = RState [k] [] false).
      { apply apply_unsub_others.
        - apply NoDup_rev, seq_NoDup.
        - apply -> in_rev. apply in_seq. lia.
        - apply filter_others.
        - intros j Hj. apply in_rev in Hj.
          destruct (Nat.eq_dec j k) as [->|Hne]; [left; reflexivity|right].
          apply filter_In. split; [exact Hj|]. destruct (Nat.eqb_spec j k); [congruence|reflexivity]. }
      destruct e as [x|err|].
      * assert (E : rstep (x_amb (A:=A) n) None (RState (rev (seq 0 n)) [] false) now (ISrc k (Next x))
                    = (Some k, RState [k] [] false,
                       snd (apply_cmds (B:=A) (RState (rev (seq 0 n)) [] false) (map CUnsub others)) ++ [OEmit (Next x)])).
        { unfold rstep. cbn [r_stopped r_live]. rewrite Hmem.
          cbn [x_amb x_step]. rewrite Nat.eqb_refl. fold others.
          rewrite apply_cmds_app, Hrel. cbn [fst snd apply_cmds is_terminal andb finish].
          rewrite !app_nil_r. reflexivity. }
        rewrite E. cbn [fst snd]. rewrite map_app, temitted_app', apply_unsub_noemit.
        rewrite amb_chosen_from. reflexivity.
      * destruct (rstep_fin (x_amb (A:=A) n) None (RState (rev (seq 0 n)) [] false) now (ISrc k (Err err)) pos) as [E1 E2];
          [reflexivity|exact Hmem|cbn; rewrite Nat.eqb_refl; discriminate|].
        rewrite E1, (run_from_stopped _ _ _ _ _ E2). cbn [x_amb x_step]. rewrite Nat.eqb_refl. cbn [fst snd].
        fold others. unfold cemits. rewrite flat_map_concat_map, map_map. cbn.
        assert (Hc : forall l : list nat, concat (map (fun _ : nat => @nil A) l) = [])
          by (induction l as [|? ? IHl]; [reflexivity|exact IHl]).
        rewrite Hc. reflexivity.
      * destruct (rstep_fin (x_amb (A:=A) n) None (RState (rev (seq 0 n)) [] false) now (ISrc k Done) pos) as [E1 E2];
          [reflexivity|exact Hmem|cbn; rewrite Nat.eqb_refl; discriminate|].
        rewrite E1, (run_from_stopped _ _ _ _ _ E2). cbn [x_amb x_step]. rewrite Nat.eqb_refl. cbn [fst snd].
        fold others. unfold cemits. rewrite flat_map_concat_map, map_map. cbn.
        assert (Hc : forall l : list nat, concat (map (fun _ : nat => @nil A) l) = [])
          by (induction l as [|? ? IHl]; [reflexivity|exact IHl]).
        rewrite Hc. reflexivity.
    + assert (Hmem : mem k (rev (seq 0 n)) = false).
      { rewrite mem_rev_seq. destruct (Nat.ltb_spec k n); [lia|reflexivity]. }
      assert (E : rstep (x_amb (A:=A) n) None (RState (rev (seq 0 n)) [] false) now (ISrc k e)
                  = (None, RState (rev (seq 0 n)) [] false, [])).
      { unfold rstep. cbn [r_stopped r_live]. now rewrite Hmem. }
      rewrite E. cbn [fst snd]. rewrite IH. reflexivity.
  - assert (E : rstep (x_amb (A:=A) n) None (RState (rev (seq 0 n)) [] false) now (ITick tag)
                = (None, RState (rev (seq 0 n)) [] false, [])) by reflexivity.
    rewrite E. cbn [fst snd]. rewrite IH. reflexivity.
  - unfold rstep. cbn [r_stopped x_amb x_step apply_cmds fst snd].
    rewrite run_from_stopped by reflexivity. cbn [fst]. rewrite app_nil_r.
    cbn [filter app]. apply release_temitted.
Qed.

(* REFINEMENT: for every number of sources and EVERY input sequence *)
Theorem amb_refines_spec n (ins : list (Z * inp A)) :
  temitted (fst (run (x_amb n) ins)) = amb_spec n None 1 ins.
Proof.
  rewrite run_unfold. cbn [fst]. rewrite temitted_app'.
  unfold start_state, start_obs. cbn [x_amb x_start].
  assert (E : forall l r, apply_cmds (B:=A) r (map CSub l)
              = (RState (r_live r ++ l) (r_timers r) (r_stopped r), map OSub l)).
  { induction l as [|j t IHl]; intros r.
    - destruct r; cbn. now rewrite app_nil_r.
    - cbn [map apply_cmds]. rewrite IHl. cbn. now rewrite <- app_assoc. }
  rewrite E. cbn [fst snd finish app r_live r_timers r_stopped].
  assert (T : temitted (map (fun x => (0%nat, x)) (map (@OSub A) (rev (seq 0 n)) ++ [])) = []).
  { rewrite app_nil_r. generalize (rev (seq 0 n)). induction l; [reflexivity|exact IHl]. }
  rewrite T. cbn [app]. apply amb_open_from.
Qed.
End Amb.

(* ---- zip: the j-th tuple is made of the j-th elements -------------------- *)
Section Zip.
Context {A : Type}.

(* drive the zip machine with elements only: (source, element) pairs *)
Fixpoint zip_feed (n : nat) (st : x_state (x_zip (A:=A) n)) (ins : list (nat * A)) (outs : list (list A))
  : x_state (x_zip (A:=A) n) * list (list A) :=
  match ins with
  | [] => (st, outs)
  | (k, x) :: t =>
      let '(st', cs, _) := x_step (x_zip n) st 0 (ISrc k (Next x)) in
      zip_feed n st' t (outs ++ cemits cs)
  end.

Definition proj (k : nat) (ins : list (nat * A)) : list A :=
  flat_map (fun p => if Nat.eqb (fst p) k then [snd p] else []) ins.

Definition col (d : A) (k : nat) (outs : list (list A)) : list A := map (fun t => nth k t d) outs.

Lemma nth_set_length {X} k (x : X) l : (k < length l)%nat -> length (nth_set k x l) = length l.
Proof.
  intros H. unfold nth_set. rewrite app_length, firstn_length_le by lia.
  destruct (skipn k l) as [|y t] eqn:E.
  - assert (length (skipn k l) = 0%nat) by now rewrite E. rewrite skipn_length in *. lia.
  - cbn. assert (length (skipn k l) = S (length t)) by now rewrite E. rewrite skipn_length in *. lia.
Qed.

Lemma nth_nth_set_same {X} k (x d : X) l : (k < length l)%nat -> nth k (nth_set k x l) d = x.
Proof.
  intros H. unfold nth_set. rewrite app_nth2; rewrite firstn_length_le by lia; [|lia].
  rewrite Nat.sub_diag. destruct (skipn k l) eqn:E; [|reflexivity].
  assert (length (skipn k l) = 0%nat) by now rewrite E. rewrite skipn_length in *. lia.
Qed.

Lemma nth_nth_set_other {X} k j (x d : X) l : j <> k -> nth j (nth_set k x l) d = nth j l d.
Proof.
  intros Hne. unfold nth_set.
  destruct (Nat.lt_ge_cases j k) as [Hlt|Hge].
  - destruct (Nat.lt_ge_cases j (length l)) as [Hjl|Hjl].
    + rewrite app_nth1 by (rewrite firstn_length; lia).
      rewrite <- (firstn_skipn k l) at 2. rewrite app_nth1 by (rewrite firstn_length; lia). reflexivity.
    + rewrite (nth_overflow l) by lia. apply nth_overflow.
      rewrite app_length, firstn_length. destruct (skipn k l) eqn:E; cbn; [lia|].
      assert (length (skipn k l) = S (length l0)) by now rewrite E. rewrite skipn_length in *. lia.
  - destruct (Nat.lt_ge_cases k (length l)) as [Hkl|Hkl].
    + rewrite app_nth2 by (rewrite firstn_length; lia). rewrite firstn_length_le by lia.
      rewrite <- (firstn_skipn k l) at 2. rewrite app_nth2 by (rewrite firstn_length; lia).
      rewrite firstn_length_le by lia.
      destruct (skipn k l) as [|y t] eqn:E.
      * assert (length (skipn k l) = 0%nat) by now rewrite E. rewrite skipn_length in *. lia.
      * replace (j - k)%nat with (S (j - k - 1)) by lia. reflexivity.
    + rewrite skipn_all2 by lia. rewrite app_nil_r, firstn_all2 by lia. reflexivity.
Qed.

(* pairing invariant: what source k delivered = the k-th column of the emitted
   tuples followed by what is still queued for k *)
Definition zip_inv (d : A) (n : nat) (ins : list (nat * A)) (queues : list (list A)) (outs : list (list A)) : Prop :=
  length queues = n /\ forall k, (k < n)%nat -> proj k ins = col d k outs ++ nth k queues [].

Lemma proj_app k (a b : list (nat * A)) : proj k (a ++ b) = proj k a ++ proj k b.
Proof. unfold proj. apply flat_map_app. Qed.

Lemma col_app d k (a b : list (list A)) : col d k (a ++ b) = col d k a ++ col d k b.
Proof. unfold col. apply map_app. Qed.

Lemma all_nonempty_nth (qs : list (list A)) : all_nonempty qs = true ->
  forall k, (k < length qs)%nat -> nth k qs [] <> [].
Proof.
  unfold all_nonempty. intros H k Hk Hnil.
  rewrite forallb_forall in H. specialize (H (nth k qs []) (nth_In _ _ Hk)).
  rewrite Hnil in H. discriminate.
Qed.

Lemma zip_step_inv d n (done : list bool) (seen : list (nat * A)) queues outs k x :
  (k < n)%nat -> zip_inv d n seen queues outs ->
  let '(st', cs, _) := x_step (x_zip n) (queues, done) 0 (ISrc k (Next x)) in
  zip_inv d n (seen ++ [(k, x)]) (fst st') (outs ++ cemits cs) /\ snd st' = done.
Proof.
  intros Hk [Hlen Hinv]. cbn [x_zip x_step].
  set (queues1 := nth_set k (nth k queues [] ++ [x]) queues).
  assert (Hlen1 : length queues1 = n) by (subst queues1; rewrite nth_set_length; lia).
  assert (H1 : forall j, (j < n)%nat -> proj j (seen ++ [(k, x)]) = col d j outs ++ nth j queues1 []).
  { intros j Hj. rewrite proj_app, (Hinv j Hj). unfold proj at 1. cbn [flat_map fst snd app].
    subst queues1. destruct (Nat.eqb_spec k j) as [->|Hne].
    - rewrite nth_nth_set_same by lia. now rewrite app_nil_r, app_assoc.
    - rewrite nth_nth_set_other by congruence. now rewrite !app_nil_r. }
  destruct (all_nonempty queues1) eqn:Hall; cbn [fst snd cemits flat_map app].
  - split; [|reflexivity]. split; [now rewrite map_length|].
    intros j Hj. rewrite (H1 j Hj), col_app. unfold col at 2. cbn [map].
    pose proof (all_nonempty_nth queues1 Hall j ltac:(lia)) as Hne.
    rewrite <- app_assoc. f_equal.
    (* the j-th queue = its head :: its tail *)
    assert (Hj1 : (j < length queues1)%nat) by lia.
    unfold col. cbn [map app].
    rewrite (nth_indep _ d x) by (rewrite map_length; lia).
    rewrite (map_nth (fun q => match q with [] => x | v :: _ => v end) queues1 [] j).
    pose proof (map_nth (@tl A) queues1 [] j) as Htl. cbn [tl] in Htl. rewrite Htl.
    destruct (nth j queues1 []) as [|v t]; [congruence|reflexivity].
  - split; [|reflexivity]. split; [exact Hlen1|].
    intros j Hj. rewrite app_nil_r. apply H1. exact Hj.
Qed.

(* for ANY sequence of deliveries (source, element) to an n-ary zip: column k of
   the emitted tuples, followed by what is still buffered for source k, is
   exactly what source k delivered -- so the j-th tuple consists of the j-th
   elements of the sources *)
Theorem zip_pairing d n (ins : list (nat * A)) :
  Forall (fun p => (fst p < n)%nat) ins ->
  let '(st, outs) := zip_feed n (repeat [] n, repeat false n) ins [] in
  forall k, (k < n)%nat -> proj k ins = col d k outs ++ nth k (fst st) [].
Proof.
  intros Hall.
  assert (G : forall ins seen queues done outs,
    Forall (fun p => (fst p < n)%nat) ins -> zip_inv d n seen queues outs ->
    let '(st, outs') := zip_feed n (queues, done) ins outs in
    zip_inv d n (seen ++ ins) (fst st) outs').
  { clear. induction ins as [|[k x] rest IH]; intros seen queues done outs Hf Hinv.
    - cbn. now rewrite app_nil_r.
    - inversion Hf as [|? ? Hk Hrest]; subst. cbn [fst] in Hk. cbn [zip_feed].
      pose proof (zip_step_inv d n done seen queues outs k x Hk Hinv) as Hs.
      destruct (x_step (x_zip n) (queues, done) 0 (ISrc k (Next x))) as [[st' cs] f].
      destruct Hs as [Hs1 Hs2]. destruct st' as [q' d']. cbn [fst snd] in *. subst d'.
      specialize (IH (seen ++ [(k, x)]) q' done (outs ++ cemits cs) Hrest Hs1).
      rewrite <- app_assoc in IH. exact IH. }
  specialize (G ins [] (repeat [] n) (repeat false n) [] Hall).
  assert (H0 : zip_inv d n [] (repeat [] n) []).
  { split; [apply repeat_length|]. intros k Hk. cbn.
    clear - Hk. revert k Hk. induction n as [|m IHm]; intros k Hk; [lia|].
    destruct k; cbn; [reflexivity|apply IHm; lia]. }
  specialize (G H0). destruct (zip_feed n (repeat [] n, repeat false n) ins []) as [st outs].
  cbn [app] in G. destruct G as [_ G]. exact G.
Qed.

(* when zip emits and when it completes *)
Lemma zip_emits_iff_all_have n queues done now k (x : A) :
  cemits (snd (fst (x_step (x_zip n) (queues, done) now (ISrc k (Next x))))) <> [] <->
  all_nonempty (nth_set k (nth k queues [] ++ [x]) queues) = true.
Proof.
  cbn [x_zip x_step]. destruct (all_nonempty _); cbn; split; intros H; try congruence; discriminate.
Qed.

Lemma zip_completion_rule n queues done now k :
  snd (x_step (x_zip (A:=A) n) (queues, done) now (ISrc k Done))
  = if Nat.eqb (length (nth k queues [])) 0 then Complete else Cont.
Proof. reflexivity. Qed.
End Zip.
