(* C09: lifting a failing step to the whole run.
   [state_after m s xs] is the state the machine is in after the elements xs when none of the steps ended
   the subscription ([None] as soon as a step left with Complete / Fail).  A step that fails after such a
   prefix puts  outs ++ [Err e]  at that input's position, everything delivered before is unchanged and
   NOTHING follows, whatever the source does afterwards. *)
From RxVerif Require Import Base.Prelude Ops.Machine Ops.MachineFacts Ops.Elementwise Ops.Aggregates
  Ops.RaiseFacts.

Section Generic.
Context {A B : Type} (m : mealy A B).

Fixpoint state_after (s : m_state m) (xs : list A) : option (m_state m) :=
  match xs with
  | [] => Some s
  | x :: r => let '(s', _, f) := m_next m s x in if live f then state_after s' r else None
  end.

Definition no_terminal (l : list (nat * ev B)) : bool := forallb (fun p => negb (is_terminal (snd p))) l.

Lemma no_terminal_app l1 l2 : no_terminal (l1 ++ l2) = no_terminal l1 && no_terminal l2.
Proof. apply forallb_app. Qed.

Lemma no_terminal_nexts k (outs : list B) : no_terminal (map (fun b => (k, Next b)) outs) = true.
Proof. induction outs as [|b t IH]; [reflexivity|exact IH]. Qed.

Lemma no_terminal_emit k (outs : list B) f : no_terminal (emit k outs f) = live f.
Proof.
  unfold emit. rewrite no_terminal_app, no_terminal_nexts. destruct f; reflexivity.
Qed.

(* the prefix ran without a terminal  <->  the machine is still subscribed after it *)
Lemma state_after_iff_no_terminal xs : forall s k,
  no_terminal (exec_from m s k (map Next xs)) = true <-> exists s', state_after s xs = Some s'.
Proof.
  induction xs as [|x r IH]; intros s k; cbn [map exec_from state_after].
  - split; [eauto|reflexivity].
  - destruct (m_next m s x) as [[s1 outs] f]. rewrite no_terminal_app, no_terminal_emit.
    destruct f; cbn [live andb].
    + apply IH.
    + split; [discriminate|intros [? ?]; discriminate].
    + split; [discriminate|intros [? ?]; discriminate].
Qed.

(* after a live prefix the run continues from [state_after], positions shifted by the prefix length *)
Lemma exec_from_app_nexts pre : forall s k s' tl,
  state_after s pre = Some s' ->
  exec_from m s k (map Next pre ++ tl)
  = exec_from m s k (map Next pre) ++ exec_from m s' (k + length pre)%nat tl.
Proof.
  induction pre as [|x r IH]; intros s k s' tl H; cbn [map app exec_from state_after length] in *.
  - injection H as <-. now rewrite Nat.add_0_r.
  - destruct (m_next m s x) as [[s1 outs] f]. destruct f; cbn [live] in *; try discriminate.
    rewrite (IH _ (S k) _ tl H), <- app_assoc, <- plus_n_Sm. reflexivity.
Qed.

Theorem first_raise_from pre x post tl s k s' s'' outs e :
  state_after s pre = Some s' ->
  m_next m s' x = (s'', outs, Fail e) ->
  exec_from m s k (map Next (pre ++ x :: post) ++ tl)
  = exec_from m s k (map Next pre)
    ++ map (fun b => ((k + length pre)%nat, Next b)) outs ++ [((k + length pre)%nat, Err e)].
Proof.
  intros Hs Hx. rewrite map_app, <- app_assoc. rewrite (exec_from_app_nexts pre s k s' _ Hs).
  f_equal. cbn [map app]. exact (fail_stops m s' _ x _ s'' outs e Hx).
Qed.

(* the same for a whole subscription (machines that do not end inside subscribe()) *)
Theorem first_raise_exec pre x post tl s' s'' outs e :
  live (snd (m_pre m)) = true ->
  state_after (m_init m) pre = Some s' ->
  m_next m s' x = (s'', outs, Fail e) ->
  exec m (map Next (pre ++ x :: post) ++ tl)
  = exec m (map Next pre)
    ++ map (fun b => (S (length pre), Next b)) outs ++ [(S (length pre), Err e)].
Proof.
  intros Hl Hs Hx. unfold exec. destruct (m_pre m) as [o f]. cbn [snd] in Hl. rewrite Hl.
  rewrite (first_raise_from pre x post tl _ 1 s' s'' outs e Hs Hx). now rewrite app_assoc.
Qed.

(* ... and the prefix itself is untouched by what comes later: no terminal in it *)
Lemma live_prefix_no_terminal pre s' :
  live (snd (m_pre m)) = true -> state_after (m_init m) pre = Some s' ->
  no_terminal (exec m (map Next pre)) = true.
Proof.
  intros Hl Hs. unfold exec. destruct (m_pre m) as [o f]. cbn [snd] in Hl. rewrite Hl.
  rewrite no_terminal_app, no_terminal_emit, Hl. cbn [andb].
  apply state_after_iff_no_terminal. eauto.
Qed.
Corollary first_raise_exec0 pre x post tl s' s'' e :
  live (snd (m_pre m)) = true ->
  state_after (m_init m) pre = Some s' ->
  m_next m s' x = (s'', [], Fail e) ->
  exec m (map Next (pre ++ x :: post) ++ tl) = exec m (map Next pre) ++ [(S (length pre), Err e)].
Proof. intros Hl Hs Hx. exact (first_raise_exec pre x post tl s' s'' [] e Hl Hs Hx). Qed.
End Generic.

(* ---- run-level corollaries: operator by operator -------------------------------------------------
   Shape of each: the callback returned on every element of [pre], raises e on x; then for ANY
   continuation (more elements [post], then an arbitrary tail [tl] -- terminals, junk) the run is the run
   on [pre] followed by Err e at x's position, and nothing else. *)
Section Corollaries.
Context {A B K : Type}.

(* map_indexed / filter_indexed: the callback sees the running index *)
Fixpoint oks_i {R} (f : A -> nat -> res R) (i : nat) (pre : list A) : Prop :=
  match pre with [] => True | y :: r => (exists b, f y i = Ok b) /\ oks_i f (S i) r end.

Lemma state_after_map_indexed (f : A -> nat -> res B) pre : forall i,
  oks_i f i pre -> state_after (op_map_indexed f) i pre = Some (i + length pre)%nat.
Proof.
  induction pre as [|y r IH]; intros i H; cbn [state_after length oks_i] in *.
  - now rewrite Nat.add_0_r.
  - destruct H as [[b Hb] Hr]. cbn [op_map_indexed m_next]. rewrite Hb. cbn [live].
    rewrite (IH _ Hr). now rewrite <- plus_n_Sm.
Qed.

Theorem map_indexed_first_raise (f : A -> nat -> res B) pre x post tl e :
  oks_i f 0 pre -> f x (length pre) = Raise e ->
  exec (op_map_indexed f) (map Next (pre ++ x :: post) ++ tl)
  = exec (op_map_indexed f) (map Next pre) ++ [(S (length pre), Err e)].
Proof.
  intros Hp Hx. pose proof (state_after_map_indexed f pre 0 Hp) as Hs. cbn [Nat.add] in Hs.
  eapply (first_raise_exec0 (op_map_indexed f)); [reflexivity|exact Hs|].
  apply raise_map_indexed. exact Hx.
Qed.

Lemma state_after_filter_indexed (p : A -> nat -> res bool) pre : forall i,
  oks_i p i pre -> state_after (op_filter_indexed p) i pre = Some (i + length pre)%nat.
Proof.
  induction pre as [|y r IH]; intros i H; cbn [state_after length oks_i] in *.
  - now rewrite Nat.add_0_r.
  - destruct H as [[b Hb] Hr]. cbn [op_filter_indexed m_next]. rewrite Hb.
    destruct b; cbn [live]; rewrite (IH _ Hr); now rewrite <- plus_n_Sm.
Qed.

Theorem filter_indexed_first_raise (p : A -> nat -> res bool) pre x post tl e :
  oks_i p 0 pre -> p x (length pre) = Raise e ->
  exec (op_filter_indexed p) (map Next (pre ++ x :: post) ++ tl)
  = exec (op_filter_indexed p) (map Next pre) ++ [(S (length pre), Err e)].
Proof.
  intros Hp Hx. pose proof (state_after_filter_indexed p pre 0 Hp) as Hs. cbn [Nat.add] in Hs.
  eapply (first_raise_exec0 (op_filter_indexed p)); [reflexivity|exact Hs|].
  apply raise_filter_indexed. exact Hx.
Qed.

(* take_while: the predicate held on [pre] (so all of it was forwarded), raises on x *)
Lemma state_after_take_while (p : A -> res bool) inc pre :
  Forall (fun y => p y = Ok true) pre -> state_after (op_take_while p inc) true pre = Some true.
Proof.
  induction 1 as [|y r Hy _ IH]; cbn [state_after]; [reflexivity|].
  cbn [op_take_while m_next negb]. rewrite Hy. cbn [live]. exact IH.
Qed.

Lemma take_while_prefix (p : A -> res bool) inc pre : forall k,
  Forall (fun y => p y = Ok true) pre ->
  exec_from (op_take_while p inc) true k (map Next pre) = nexts (indexed k pre).
Proof.
  induction pre as [|y r IH]; intros k H; [reflexivity|].
  inversion H as [|? ? Hy Hr]; subst. cbn [map exec_from op_take_while m_next negb indexed].
  rewrite Hy. cbn [emit live map app]. rewrite (IH _ Hr). reflexivity.
Qed.

Theorem take_while_first_raise (p : A -> res bool) inc pre x post tl e :
  Forall (fun y => p y = Ok true) pre -> p x = Raise e ->
  exec (op_take_while p inc) (map Next (pre ++ x :: post) ++ tl)
  = nexts (indexed 1 pre) ++ [(S (length pre), Err e)].
Proof.
  intros Hp Hx.
  erewrite (first_raise_exec0 (op_take_while p inc));
    [|reflexivity|exact (state_after_take_while p inc pre Hp)|apply raise_take_while; exact Hx].
  unfold exec. cbn [op_take_while m_pre m_init emit live map app].
  now rewrite (take_while_prefix p inc pre 1 Hp).
Qed.

(* skip_while: still skipping on [pre] (nothing forwarded yet), raises on x *)
Lemma state_after_skip_while (p : A -> res bool) pre :
  Forall (fun y => p y = Ok true) pre -> state_after (op_skip_while p) false pre = Some false.
Proof.
  induction 1 as [|y r Hy _ IH]; cbn [state_after]; [reflexivity|].
  cbn [op_skip_while m_next]. rewrite Hy. cbn [live]. exact IH.
Qed.

Lemma skip_while_prefix (p : A -> res bool) pre : forall k,
  Forall (fun y => p y = Ok true) pre ->
  exec_from (op_skip_while p) false k (map Next pre) = [].
Proof.
  induction pre as [|y r IH]; intros k H; [reflexivity|].
  inversion H as [|? ? Hy Hr]; subst. cbn [map exec_from op_skip_while m_next].
  rewrite Hy. cbn [emit live map app]. exact (IH _ Hr).
Qed.

Theorem skip_while_first_raise (p : A -> res bool) pre x post tl e :
  Forall (fun y => p y = Ok true) pre -> p x = Raise e ->
  exec (op_skip_while p) (map Next (pre ++ x :: post) ++ tl) = [(S (length pre), Err e)].
Proof.
  intros Hp Hx.
  erewrite (first_raise_exec0 (op_skip_while p));
    [|reflexivity|exact (state_after_skip_while p pre Hp)|apply raise_skip_while; exact Hx].
  unfold exec. cbn [op_skip_while m_pre m_init emit live map app].
  now rewrite (skip_while_prefix p pre 1 Hp).
Qed.

(* scan: the accumulator folded over [pre] without raising is a; f a x raises *)
Fixpoint fold_ok {T} (f : T -> A -> res T) (a : T) (pre : list A) : option T :=
  match pre with
  | [] => Some a
  | y :: r => match f a y with Ok a' => fold_ok f a' r | Raise _ => None end
  end.

Lemma state_after_scan_seed {T} (f : T -> A -> res T) seed pre : forall acc a,
  fold_ok f (match acc with Some v => v | None => seed end) pre = Some a ->
  exists acc', state_after (op_scan_seed f seed) acc pre = Some acc'
               /\ match acc' with Some v => v | None => seed end = a.
Proof.
  induction pre as [|y r IH]; intros acc a H; cbn [fold_ok state_after] in *.
  - injection H as <-. eauto.
  - cbn [op_scan_seed m_next].
    destruct (f match acc with Some v => v | None => seed end y) as [a'|e]; [|discriminate].
    cbn [live]. apply (IH (Some a')). exact H.
Qed.

Theorem scan_seed_first_raise {T} (f : T -> A -> res T) seed pre x post tl a e :
  fold_ok f seed pre = Some a -> f a x = Raise e ->
  exec (op_scan_seed f seed) (map Next (pre ++ x :: post) ++ tl)
  = exec (op_scan_seed f seed) (map Next pre) ++ [(S (length pre), Err e)].
Proof.
  intros Hp Hx. destruct (state_after_scan_seed f seed pre None a Hp) as [acc' [Hs Ha]].
  eapply (first_raise_exec0 (op_scan_seed f seed)); [reflexivity|exact Hs|].
  apply raise_scan_seed. rewrite Ha. exact Hx.
Qed.

(* scan without a seed: the first element is the accumulator, the callback runs from the second on *)
Lemma state_after_scan (f : A -> A -> res A) pre : forall v a,
  fold_ok f v pre = Some a -> state_after (op_scan f) (Some v) pre = Some (Some a).
Proof.
  induction pre as [|y r IH]; intros v a H; cbn [fold_ok state_after] in *.
  - now injection H as <-.
  - cbn [op_scan m_next]. destruct (f v y) as [a'|e]; [|discriminate]. cbn [live]. now apply IH.
Qed.

Lemma raise_scan (f : A -> A -> res A) a x e :
  f a x = Raise e -> m_next (op_scan f) (Some a) x = (Some a, [], Fail e).
Proof. intros H. cbn. now rewrite H. Qed.

Theorem scan_first_raise (f : A -> A -> res A) y pre x post tl a e :
  fold_ok f y pre = Some a -> f a x = Raise e ->
  exec (op_scan f) (map Next ((y :: pre) ++ x :: post) ++ tl)
  = exec (op_scan f) (map Next (y :: pre)) ++ [(S (S (length pre)), Err e)].
Proof.
  intros Hp Hx.
  eapply (first_raise_exec0 (op_scan f) (y :: pre)); [reflexivity| |apply raise_scan; exact Hx].
  cbn [state_after op_scan m_init m_next live]. exact (state_after_scan f pre y a Hp).
Qed.
End Corollaries.

(* operators whose state is a collection: [set] / [cur] / [st] / [d] is what the machine holds after [pre] *)
Section Stateful.
Context {A K : Type}.

Theorem distinct_first_raise (key : A -> res K) cmp pre x post tl set e :
  state_after (op_distinct key cmp) [] pre = Some set ->
  (key x = Raise e \/ exists k, key x = Ok k /\ hs_find cmp set k = Raise e) ->
  exec (op_distinct key cmp) (map Next (pre ++ x :: post) ++ tl)
  = exec (op_distinct key cmp) (map Next pre) ++ [(S (length pre), Err e)].
Proof.
  intros Hs Hx.
  eapply (first_raise_exec0 (op_distinct key cmp)); [reflexivity|exact Hs|].
  destruct Hx as [Hk|[k [Hk Hc]]].
  - apply raise_distinct_key. exact Hk.
  - eapply raise_distinct_cmp; eassumption.
Qed.

(* the stored set is what one expects when nothing raised: keys of the forwarded elements *)
Lemma state_after_distinct_pure (key : A -> K) (eqk : K -> K -> bool) pre : forall set,
  exists set', state_after (op_distinct (fun x => Ok (key x)) (fun a b => Ok (eqk a b))) set pre = Some set'.
Proof.
  induction pre as [|y r IH]; intros set; cbn [state_after]; [eauto|].
  cbn [op_distinct m_next].
  assert (H : exists b, hs_find (fun a b => Ok (eqk a b)) set (key y) = Ok b).
  { clear. induction set as [|a t IHt]; cbn [hs_find]; [eauto|]. destruct (eqk a (key y)); eauto. }
  destruct H as [b ->]. destruct b; cbn [live]; apply IH.
Qed.

Theorem duc_first_raise (key : A -> res K) cmp pre x post tl cur e :
  state_after (op_distinct_until_changed key cmp) None pre = Some cur ->
  (key x = Raise e \/ exists k c, key x = Ok k /\ cur = Some c /\ cmp c k = Raise e) ->
  exec (op_distinct_until_changed key cmp) (map Next (pre ++ x :: post) ++ tl)
  = exec (op_distinct_until_changed key cmp) (map Next pre) ++ [(S (length pre), Err e)].
Proof.
  intros Hs Hx.
  eapply (first_raise_exec0 (op_distinct_until_changed key cmp)); [reflexivity|exact Hs|].
  destruct Hx as [Hk|[k [c [Hk [-> Hc]]]]].
  - apply raise_duc_key. exact Hk.
  - eapply raise_duc_cmp; eassumption.
Qed.

Lemma raise_extrema_cmp (key : A -> res K) cmp lk items x k e :
  key x = Ok k -> cmp k lk = Raise e ->
  m_next (op_extrema_by key cmp) (Some lk, items) x = ((Some lk, items), [], Fail e).
Proof. intros H1 H2. cbn. now rewrite H1, H2. Qed.

(* max_by / min_by: key mapper OR comparer raising *)
Theorem extrema_first_raise (key : A -> res K) cmp pre x post tl st e :
  state_after (op_extrema_by key cmp) (None, []) pre = Some st ->
  (key x = Raise e \/ exists k lk, key x = Ok k /\ fst st = Some lk /\ cmp k lk = Raise e) ->
  exec (op_extrema_by key cmp) (map Next (pre ++ x :: post) ++ tl) = [(S (length pre), Err e)].
Proof.
  intros Hs Hx.
  assert (Hq : forall l s k, exec_from (op_extrema_by key cmp) s k (map Next l) = []
                             \/ exists j e', exec_from (op_extrema_by key cmp) s k (map Next l) = [(j, Err e')]).
  { induction l as [|y r IH]; intros s k; [now left|]. cbn [map exec_from op_extrema_by m_next].
    destruct s as [last items]. destruct (key y) as [ky|e1]; [|right; cbn; eauto].
    destruct last as [lk|].
    - destruct (cmp ky lk) as [c|e1]; [cbn [emit live map app]; apply IH|right; cbn; eauto].
    - cbn [emit live map app]. apply IH. }
  erewrite (first_raise_exec0 (op_extrema_by key cmp)); [|reflexivity|exact Hs|].
  - pose proof (live_prefix_no_terminal (op_extrema_by key cmp) pre st eq_refl Hs) as Hn.
    unfold exec in *. cbn [op_extrema_by m_pre m_init emit live map app] in *.
    destruct (Hq pre (None, []) 1%nat) as [->|[j [e' H]]]; [reflexivity|].
    rewrite H in Hn. discriminate.
  - destruct Hx as [Hk|[k [lk [Hk [Hl Hc]]]]].
    + apply raise_extrema_key. exact Hk.
    + destruct st as [l items]. cbn [fst] in Hl. subst l. eapply raise_extrema_cmp; eassumption.
Qed.

Theorem find_first_raise (p : A -> nat -> res bool) yi pre x post tl e :
  state_after (op_find p yi) 0%nat pre = Some (length pre) -> p x (length pre) = Raise e ->
  exec (op_find p yi) (map Next (pre ++ x :: post) ++ tl) = [(S (length pre), Err e)].
Proof.
  intros Hs Hx.
  assert (Hq : forall l i k s', state_after (op_find p yi) i l = Some s' ->
                                exec_from (op_find p yi) i k (map Next l) = []).
  { induction l as [|y r IH]; intros i k s' H; [reflexivity|].
    cbn [map exec_from state_after op_find m_next] in *.
    destruct (p y i) as [[|]|e1]; cbn [live] in H; try discriminate.
    cbn [emit live map app]. eapply IH; eassumption. }
  erewrite (first_raise_exec0 (op_find p yi)); [|reflexivity|exact Hs|apply raise_find; exact Hx].
  unfold exec. cbn [op_find m_pre m_init emit live map app]. now rewrite (Hq _ _ _ _ Hs).
Qed.
End Stateful.
