(* C19: partition -- run-level theorem for ANY number of simultaneous
   subscriptions of the same output (operators/_partition.py as modelled in
   Ops/Groups.v: ONE published Subject, ref_count, one filter per subscription).

   For a total predicate and EVERY input sequence (subscriptions and disposals
   of either output, in any number and at any time, interleaved with the
   source's notifications, conforming or not), the notifications observed on
   output g are those of a small counting specification [pv_view]:
     - an element of g's side of the predicate is delivered once per
       subscription of g that is live when the source emits it -- every
       subscription gets its own copy, from ITS subscription point on (the
       published source is shared and hot: what was emitted before a
       subscription is not replayed to it), until it is disposed;
     - elements of the other side are not delivered on g at all;
     - the source's terminal is delivered once per live subscription of g; a
       subscription made after it gets the terminal at once;
     - while no output has a subscription the source is not connected and what it
       emits is lost.
   (The model does not name the individual subscriptions of an output: a
   disposal of output g removes one of them, and the trace records one
   notification per live subscription.) *)
From RxVerif Require Import Base.Prelude Ops.Machine Ops.MultiWin Ops.MultiWinFacts Ops.Groups
  Ops.GroupFacts Ops.WindowCountFacts Ops.PartitionRunFacts.

Local Arguments Multi.mem : simpl never.
Local Arguments Multi.remove : simpl never.

(* ------------------------------------------------------------- the spec -- *)
Record pv_st (A : Type) := PvSt { pv_cnt : nat -> nat; pv_tot : nat; pv_stopped : option (ev A) }.
Arguments PvSt {A}. Arguments pv_cnt {A}. Arguments pv_tot {A}. Arguments pv_stopped {A}.

Section Spec.
Context {A : Type}.
Variable pf : A -> bool.

(* [pv_cnt s j] = live subscriptions of output j, [pv_tot s] = live subscriptions of both outputs *)
Definition pv_step (g : nat) (s : pv_st A) (i : inp A) : pv_st A * list (ev A) :=
  match i with
  | ISubWin j =>
      match pv_stopped s with
      | Some t => (s, if Nat.eqb g j then [t] else [])
      | None => (PvSt (fun h => if Nat.eqb h j then S (pv_cnt s h) else pv_cnt s h) (S (pv_tot s)) None, [])
      end
  | IUnsubWin j =>
      match pv_cnt s j with
      | O => (s, [])
      | S _ => (PvSt (fun h => if Nat.eqb h j then Nat.pred (pv_cnt s h) else pv_cnt s h) (Nat.pred (pv_tot s))
                     (pv_stopped s), [])
      end
  | ISrc O e =>
      match pv_tot s, pv_stopped s with
      | S _, None =>
          match e with
          | Next x => (s, if side pf g x then repeat (Next x) (pv_cnt s g) else [])
          | _ => (PvSt (fun _ => 0%nat) 0 (Some e), repeat e (pv_cnt s g))
          end
      | _, _ => (s, [])
      end
  | _ => (s, [])
  end.

Fixpoint pv_run (g : nat) (s : pv_st A) (ins : list (Z * inp A)) : list (ev A) :=
  match ins with
  | [] => []
  | (_, i) :: rest => snd (pv_step g s i) ++ pv_run g (fst (pv_step g s i)) rest
  end.

Definition pv_init : pv_st A := PvSt (fun _ => 0%nat) 0 None.
(* what output g shows during the input sequence [ins] *)
Definition pv_view (g : nat) (ins : list (Z * inp A)) : list (ev A) := pv_run g pv_init ins.
End Spec.

(* ------------------------------------------------------ list arithmetic -- *)
Lemma count_of_snoc h j (l : list nat) :
  count_of h (l ++ [j]) = if Nat.eqb h j then S (count_of h l) else count_of h l.
Proof.
  unfold count_of. rewrite filter_app, app_length. cbn [filter].
  destruct (Nat.eqb h j); cbn [length]; lia.
Qed.

Lemma mem_count j (l : list nat) : mem j l = match count_of j l with O => false | S _ => true end.
Proof.
  unfold Multi.mem, count_of. induction l as [|x t IH]; [reflexivity|]. cbn [existsb filter].
  destruct (Nat.eqb j x); [reflexivity|exact IH].
Qed.

Lemma count_of_remove h j (l : list nat) : mem j l = true ->
  count_of h (remove j l) = if Nat.eqb h j then Nat.pred (count_of h l) else count_of h l.
Proof.
  unfold Multi.mem, count_of. induction l as [|x t IH]; [discriminate|]. rewrite remove_cons. cbn [existsb filter].
  destruct (Nat.eqb_spec j x) as [->|Hne].
  - intros _. destruct (Nat.eqb h x); reflexivity.
  - cbn [orb]. intros Hm. cbn [filter]. specialize (IH Hm).
    destruct (Nat.eqb_spec h x) as [->|Hx].
    + destruct (Nat.eqb_spec x j); [congruence|]. cbn [length]. rewrite IH. reflexivity.
    + exact IH.
Qed.

Lemma length_remove j (l : list nat) : mem j l = true -> length (remove j l) = Nat.pred (length l).
Proof.
  unfold Multi.mem. induction l as [|x t IH]; [discriminate|]. rewrite remove_cons. cbn [existsb].
  destruct (Nat.eqb j x); [reflexivity|]. cbn [orb length]. intros Hm. rewrite (IH Hm).
  destruct t; [discriminate|reflexivity].
Qed.

Section Refine.
Context {A : Type}.
Variable pf : A -> bool.
Notation tp := (tpred pf).

Record pv_rel (s : pt_st (A:=A)) (v : pv_st A) : Prop := {
  pr_cnt : forall j, pv_cnt v j = count_of j (pt_subs s);
  pr_tot : pv_tot v = length (pt_subs s);
  pr_stop : pv_stopped v = pt_stopped s;
  pr_inv : pt_inv s }.

Lemma wobs_tail g (c : bool) : wobs (W:=A) (B:=unit) g (if c then [OUnsub 0%nat] else []) = [].
Proof. destruct c; reflexivity. Qed.

Lemma pv_refine_step g s v i : pv_rel s v ->
  pv_rel (fst (pt_step tp s i)) (fst (pv_step pf g v i))
  /\ wobs g (snd (pt_step tp s i)) = snd (pv_step pf g v i).
Proof.
  intros HR. pose proof HR as HR0. pose proof (pt_step_inv tp s i (pr_inv _ _ HR)) as Hinv'.
  destruct HR as [Hc Ht Hs [Hi1 Hi2]].
  destruct i as [k e|tag| |j|j]; cbn [pt_step pv_step].
  - (* a notification of the source *)
    destruct k as [|k]; [|split; [exact HR0|reflexivity]].
    rewrite Ht, Hs.
    destruct (pt_conn s) eqn:Ec.
    2:{ (* nobody subscribed: not connected *)
      assert (E : pt_subs s = []).
      { destruct (pt_subs s) eqn:E; [reflexivity|]. assert (HH : false = true) by (apply Hi1; discriminate). discriminate. }
      rewrite E. cbn [length fst snd wobs flat_map].
      split; [exact HR0|reflexivity]. }
    destruct (length (pt_subs s)) as [|n] eqn:El.
    { exfalso. apply (proj1 Hi1); [reflexivity|]. destruct (pt_subs s); [reflexivity|discriminate]. }
    destruct (pt_stopped s) as [t|] eqn:Est.
    { exfalso. assert (H : pt_subs s = []) by (apply Hi2; congruence). rewrite H in El. discriminate. }
    destruct e as [x|z|].
    + rewrite (partition_deliver tp x (pf x) eq_refl). cbn [fst snd].
      split.
      * assert (E : PtSt (pt_subs s) true None = s) by (destruct s; cbn in *; congruence).
        rewrite E. exact HR0.
      * rewrite wobs_map_side, count_of_filter_side, Hc. unfold side. destruct (goes_to (pf x) g); reflexivity.
    + pose proof (pt_terminate_wobs (A:=A) g (Err z) (pt_subs s) (pt_subs s) true) as HT.
      pose proof (pt_terminate_all (A:=A) (Err z) (pt_subs s) true) as [HA _].
      destruct (pt_terminate (Err z) (pt_subs s) (pt_subs s) true) as [[s' c'] o]. cbn [fst snd] in *. subst s'.
      split.
      * constructor; cbn [pt_subs pt_stopped pv_cnt pv_tot pv_stopped]; auto.
        split; cbn [pt_conn pt_subs pt_stopped]; [split; [discriminate|intros H; contradiction]|auto].
      * rewrite wobs_app, HT, wobs_tail, app_nil_r, Hc. reflexivity.
    + pose proof (pt_terminate_wobs (A:=A) g Done (pt_subs s) (pt_subs s) true) as HT.
      pose proof (pt_terminate_all (A:=A) Done (pt_subs s) true) as [HA _].
      destruct (pt_terminate Done (pt_subs s) (pt_subs s) true) as [[s' c'] o]. cbn [fst snd] in *. subst s'.
      split.
      * constructor; cbn [pt_subs pt_stopped pv_cnt pv_tot pv_stopped]; auto.
        split; cbn [pt_conn pt_subs pt_stopped]; [split; [discriminate|intros H; contradiction]|auto].
      * rewrite wobs_app, HT, wobs_tail, app_nil_r, Hc. reflexivity.
  - split; [exact HR0|reflexivity].
  - split; [exact HR0|reflexivity].
  - (* a new subscription of output j *)
    rewrite Hs. cbn [pt_step] in Hinv'. destruct (pt_stopped s) as [t|] eqn:Est.
    + split.
      * destruct (match pt_subs s with [] => true | _ => false end && negb (pt_conn s)); cbn [fst];
          exact HR0.
      * destruct (match pt_subs s with [] => true | _ => false end && negb (pt_conn s)); cbn [snd wobs flat_map];
          rewrite ?app_nil_r; reflexivity.
    + destruct (match pt_subs s with [] => true | _ => false end && negb (pt_conn s)); cbn [fst snd] in *;
        (split; [|reflexivity]); constructor; cbn [pt_subs pt_stopped pv_cnt pv_tot pv_stopped]; auto;
        try (intros h; rewrite count_of_snoc, Hc; reflexivity); rewrite app_length, Ht; cbn [length]; lia.
  - (* a subscription of output j is disposed *)
    cbn [pt_step] in Hinv'. rewrite Hc, (mem_count j (pt_subs s)).
    destruct (count_of j (pt_subs s)) as [|n] eqn:En.
    + split; [exact HR0|reflexivity].
    + assert (Hm : mem j (pt_subs s) = true) by (rewrite mem_count, En; reflexivity).
      rewrite mem_count, En in Hinv'.
      pose proof (wobs_leave (A:=A) g (remove j (pt_subs s)) (pt_conn s)) as HL.
      destruct (pt_leave (A:=A) (remove j (pt_subs s)) (pt_conn s)) as [c1 o1]. cbn [fst snd] in *.
      split; [|exact HL]. constructor; cbn [pt_subs pt_stopped pv_cnt pv_tot pv_stopped]; auto.
      * intros h. rewrite (count_of_remove h j _ Hm), Hc. reflexivity.
      * rewrite (length_remove j _ Hm), Ht. reflexivity.
Qed.

Lemma pv_refine_run g ins : forall s v k, pv_rel s v ->
  wevents g (pt_run_from tp s k ins) = pv_run pf g v ins.
Proof.
  induction ins as [|[now i] rest IH]; intros s v k HR; [reflexivity|]. cbn [pt_run_from pv_run].
  destruct (pv_refine_step g s v i HR) as [HR' Ho].
  destruct (pt_step tp s i) as [s' o]. cbn [fst snd] in *.
  rewrite wevents_app, wevents_tag, Ho, (IH s' _ (S k) HR'). reflexivity.
Qed.

(* THEOREM (C19, partition with any number of subscriptions per output): for every input sequence,
   output g shows exactly what the counting specification says *)
Theorem partition_refines_counting_spec g (ins : list (Z * inp A)) :
  wevents g (pt_run tp ins) = pv_view pf g ins.
Proof.
  apply pv_refine_run. constructor; cbn; auto. split; [split; [discriminate|intros H; contradiction]|auto].
Qed.

(* n simultaneous subscriptions of output g while a conforming source runs: every element of g's side
   and the terminal are delivered n times -- one copy per subscription *)
Theorem partition_from_connected_n subs g k (xs : list A) tm :
  wevents g (pt_run_from tp (PtSt subs true None) k (src_events xs tm))
  = flat_map (fun x => repeat (Next x) (count_of g subs)) (filter (side pf g) xs)
    ++ flat_map (fun e => repeat e (count_of g subs)) (term_ev tm).
Proof.
  unfold src_events. rewrite pt_elements. f_equal.
  - induction xs as [|x t IH]; [reflexivity|]. cbn [flat_map filter]. rewrite IH.
    destruct (side pf g x); reflexivity.
  - destruct tm as [|z|]; cbn [term_ev map flat_map]; [| |reflexivity]; rewrite pt_terminal, app_nil_r; reflexivity.
Qed.

(* two subscriptions of the SAME output, the second one made after the prefix xs1 of the source: the
   first gets g's side of xs1 ++ xs2, the second g's side of xs2 only (no replay), both the terminal *)
Theorem partition_same_output_twice g (xs1 xs2 : list A) tm :
  wevents g (pt_run tp ((0, ISubWin g) :: src_events xs1 TNever ++ (0, ISubWin g) :: src_events xs2 tm))
  = map Next (filter (side pf g) xs1)
    ++ flat_map (fun x => [Next x; Next x]) (filter (side pf g) xs2)
    ++ flat_map (fun e => [e; e]) (term_ev tm).
Proof.
  unfold pt_run. cbn [pt_run_from pt_step pt_subs pt_conn pt_stopped andb negb app map].
  unfold src_events at 1. cbn [term_ev map]. rewrite app_nil_r.
  rewrite wevents_cons. cbn [wobs flat_map app].
  rewrite pt_elements.
  cbn [pt_run_from pt_step pt_subs pt_conn pt_stopped andb negb app map].
  rewrite partition_from_connected_n.
  assert (E1 : count_of g [g] = 1%nat) by (unfold count_of; cbn [filter]; now rewrite Nat.eqb_refl).
  assert (E2 : count_of g [g; g] = 2%nat) by (unfold count_of; cbn [filter]; now rewrite Nat.eqb_refl).
  rewrite E1, E2. cbn [repeat]. f_equal.
  induction xs1 as [|x t IH]; [reflexivity|]. cbn [flat_map filter]. rewrite IH.
  destruct (side pf g x); reflexivity.
Qed.
End Refine.
