(* Closed-world environment for the window/group machines of Ops/MultiWin.v that use timers: the
   discrete-event simulator of Ops/TimedSim.v, over the window-aware runner.  External events
   (source notifications, the subscriber's dispose / window subscriptions) come with their
   instants; every timer the machine requests at clock [now] with delay [d] fires exactly at
   [now + d] unless it was cancelled first.  Order at equal instants -- the policy of the proxy
   scheduler the implementation is driven with (harness/k2w.py: run_win): source notifications
   first, then due timers (earliest due time, then lowest tag = scheduling order), a dispose last.

   The simulator only CHOOSES the next input; every input is handled by the runner's [rstep]
   (Ops/MultiWin.v), so a simulation is a run: [wsim_is_run]. *)
From RxVerif Require Import Base.Prelude Ops.Machine Ops.MultiWin Ops.MultiWinFacts.

Section WSim.
Context {A W B : Type}.

(* pending timers: (tag, absolute due time), in scheduling order *)
Definition wpend := list (nat * Z).

Fixpoint wearliest (p : wpend) : option (nat * Z) :=
  match p with
  | [] => None
  | (tg, due) :: rest =>
      match wearliest rest with
      | Some (tg', due') => if due' <? due then Some (tg', due') else Some (tg, due)
      | None => Some (tg, due)
      end
  end.

Definition wnew_timers (now : Z) (o : list (obs W B)) : wpend :=
  flat_map (fun x => match x with OTimer tg d => [(tg, now + d)] | _ => [] end) o.

(* after a step: timers requested during the step are added; timers that are no longer pending
   for the runner (fired, cancelled, released) are dropped *)
Definition wupd (p : wpend) (now : Z) (o : list (obs W B)) (r' : rstate W) : wpend :=
  filter (fun td => mem (fst td) (r_timers r')) (p ++ wnew_timers now o).

(* the next input: (time, input, remaining external events) *)
Definition wnext_event (p : wpend) (ext : list (Z * inp A)) : option (Z * inp A * list (Z * inp A)) :=
  match ext, wearliest p with
  | [], None => None
  | (t, i) :: ext', None => Some (t, i, ext')
  | [], Some (tg, due) => Some (due, ITick tg, [])
  | (t, i) :: ext', Some (tg, due) =>
      if match i with IDispose => t <? due | _ => t <=? due end
      then Some (t, i, ext') else Some (due, ITick tg, ext)
  end.

(* once the runner holds no timer (none scheduled, or everything released) none is pending *)
Lemma wupd_no_timers (p : wpend) now (o : list (obs W B)) (r : rstate W) : r_timers r = [] -> wupd p now o r = [].
Proof.
  intros H. unfold wupd. rewrite H. induction (p ++ wnew_timers now o) as [|x t IH]; [reflexivity|exact IH].
Qed.

Context (imm : nat -> bool) (m : machine A W B).

(* one record per delivered input: (clock, input, what the runner observed) *)
Fixpoint wsim (fuel : nat) (s : x_state m) (r : rstate W) (p : wpend) (ext : list (Z * inp A))
  : list (Z * inp A * list (obs W B)) :=
  match fuel with
  | O => []
  | S f =>
      match wnext_event p ext with
      | None => []
      | Some (t, i, ext') =>
          let '(s', r', o) := rstep imm m s r t i in
          (t, i, o) :: wsim f s' r' (wupd p t o r') ext'
      end
  end.

(* subscription at clock t0, then the simulation for at most [fuel] inputs *)
Definition wsimulate (fuel : nat) (t0 : Z) (ext : list (Z * inp A))
  : list (obs W B) * list (Z * inp A * list (obs W B)) :=
  (start_obs imm m,
   wsim fuel (fst (start_state imm m)) (snd (start_state imm m))
        (wupd [] t0 (start_obs imm m) (snd (start_state imm m))) ext).

Definition wsim_inputs (l : list (Z * inp A * list (obs W B))) : list (Z * inp A) :=
  map (fun x => (fst (fst x), snd (fst x))) l.

(* position-tagged trace, as the runner produces it *)
Fixpoint wtag_from (k : nat) (l : list (Z * inp A * list (obs W B))) : list (nat * obs W B) :=
  match l with
  | [] => []
  | x :: t => map (fun o => (k, o)) (snd x) ++ wtag_from (S k) t
  end.

Definition wsim_trace (res : list (obs W B) * list (Z * inp A * list (obs W B))) : list (nat * obs W B) :=
  map (fun o => (0%nat, o)) (fst res) ++ wtag_from 1 (snd res).

(* clock-tagged trace: every observation with the instant at which it happened *)
Definition wsim_timed (t0 : Z) (res : list (obs W B) * list (Z * inp A * list (obs W B))) : list (Z * obs W B) :=
  map (fun o => (t0, o)) (fst res) ++ flat_map (fun x => map (fun o => (fst (fst x), o)) (snd x)) (snd res).

Lemma wsim_inputs_cons t i o l : wsim_inputs ((t, i, o) :: l) = (t, i) :: wsim_inputs l.
Proof. reflexivity. Qed.

Lemma wsim_is_run_from fuel : forall s r p ext k,
  fst (run_from imm m s r k (wsim_inputs (wsim fuel s r p ext))) = wtag_from k (wsim fuel s r p ext).
Proof.
  induction fuel as [|f IH]; intros s r p ext k; [reflexivity|].
  cbn [wsim]. destruct (wnext_event p ext) as [[[t i] ext']|]; [|reflexivity].
  destruct (rstep imm m s r t i) as [[s' r'] o] eqn:E.
  rewrite wsim_inputs_cons. cbn [run_from wtag_from snd]. rewrite E.
  specialize (IH s' r' (wupd p t o r') ext' (S k)).
  destruct (run_from imm m s' r' (S k) (wsim_inputs (wsim f s' r' (wupd p t o r') ext'))) as [tr rf].
  cbn [fst] in *. now rewrite IH.
Qed.

(* a simulation IS a run of the machine on the input sequence it delivered *)
Theorem wsim_is_run fuel t0 ext :
  fst (run imm m (wsim_inputs (snd (wsimulate fuel t0 ext)))) = wsim_trace (wsimulate fuel t0 ext).
Proof.
  rewrite run_unfold. unfold wsim_trace, wsimulate. cbn [fst snd]. f_equal. apply wsim_is_run_from.
Qed.

Lemma wsim_S f s r p ext :
  wsim (S f) s r p ext =
  match wnext_event p ext with
  | None => []
  | Some (t, i, ext') =>
      let '(s', r', o) := rstep imm m s r t i in (t, i, o) :: wsim f s' r' (wupd p t o r') ext'
  end.
Proof. reflexivity. Qed.

Lemma wtag_from_app l1 : forall k l2, wtag_from k (l1 ++ l2) = wtag_from k l1 ++ wtag_from (k + length l1) l2.
Proof.
  induction l1 as [|x t IH]; intros k l2; cbn [app wtag_from length]; [now rewrite Nat.add_0_r|].
  rewrite IH, <- app_assoc. replace (k + S (length t))%nat with (S k + length t)%nat by lia. reflexivity.
Qed.
End WSim.

(* projections of a simulation *)
Definition wsim_wevents {A W B} (g : nat) (l : list (Z * inp A * list (obs W B))) : list (Z * ev W) :=
  flat_map (fun x => map (fun e => (fst (fst x), e)) (wobs g (snd x))) l.
Definition wsim_emitted {A W B} (l : list (Z * inp A * list (obs W B))) : list (Z * ev B) :=
  flat_map (fun x => flat_map (fun o => match o with OEmit e => [(fst (fst x), e)] | _ => [] end) (snd x)) l.
(* what the outer subscriber sees (handed observables, elements, terminal), with the instants *)
Definition wsim_outer {A W B} (l : list (Z * inp A * list (obs W B))) : list (Z * obs W B) :=
  flat_map (fun x => flat_map (fun o => match o with OHand _ _ | OEmit _ => [(fst (fst x), o)] | _ => [] end) (snd x)) l.

(* ---- machines driven by observables only (no timers): notifications of several ports, in the
   order in which they happen ---- *)
Definition wports {A} (ins : list (Z * nat * ev A)) : list (Z * inp A) :=
  map (fun x => (fst (fst x), ISrc (snd (fst x)) (snd x))) ins.
Lemma wports_cons {A} t k (e : ev A) ins : wports ((t, k, e) :: ins) = (t, ISrc k e) :: wports ins.
Proof. reflexivity. Qed.

(* a runner that holds no source subscription hears nothing any more *)
Lemma run_from_deaf {A W B} (imm : nat -> bool) (m : machine A W B) (ins : list (Z * nat * ev A)) :
  forall s (r : rstate W) k, r_live r = [] -> fst (run_from imm m s r k (wports ins)) = [].
Proof.
  induction ins as [|[[t j] e] rest IH]; intros s r k Hr; [reflexivity|].
  rewrite wports_cons, run_from_cons. unfold rstep. rewrite Hr. cbn [Multi.mem existsb fst snd map app].
  apply IH. exact Hr.
Qed.
