(* C06: sequence_equal with an OBSERVABLE second argument, as a two-source
   machine (Ops/Multi.v): source 0 = the piped source ("first"), source 1 = the
   argument ("second").  Follows operators/_sequenceequal.py line by line. *)
From RxVerif Require Import Base.Prelude Ops.Machine Ops.Multi.

Section SeqEqual.
Context {A : Type}.

(* state: (ql, qr, donel, doner) -- the two queues and the two done flags of
   subscribe().  The comparer is called as comparer(v, x) with v the element
   popped from the OTHER side's queue and x the arriving element (on_next1:
   v from qr; on_next2: v from ql).  Errors of either source go straight to
   observer.on_error.  first is subscribed before second. *)
Definition x_sequence_equal (cmp : A -> A -> res bool) : machine A bool :=
  Machine (([] : list A, [] : list A, false, false), [CSub 0%nat; CSub 1%nat], Cont)
    (fun '(ql, qr, donel, doner) _ i =>
       match i with
       | ISrc O (Next x) =>                                            (* on_next1 *)
           match qr with
           | v :: t =>
               match cmp v x with
               | Raise e => ((ql, t, donel, doner), [], Fail e)
               | Ok true => ((ql, t, donel, doner), [], Cont)
               | Ok false => ((ql, t, donel, doner), [CEmit false], Complete)
               end
           | [] => if doner then ((ql, qr, donel, doner), [CEmit false], Complete)
                   else ((ql ++ [x], qr, donel, doner), [], Cont)
           end
       | ISrc O Done =>                                                (* on_completed1 *)
           match ql with
           | [] => match qr with
                   | _ :: _ => ((ql, qr, true, doner), [CEmit false], Complete)
                   | [] => if doner then ((ql, qr, true, doner), [CEmit true], Complete)
                           else ((ql, qr, true, doner), [], Cont)
                   end
           | _ :: _ => ((ql, qr, true, doner), [], Cont)
           end
       | ISrc (S _) (Next x) =>                                        (* on_next2 *)
           match ql with
           | v :: t =>
               match cmp v x with
               | Raise e => ((t, qr, donel, doner), [], Fail e)
               | Ok true => ((t, qr, donel, doner), [], Cont)
               | Ok false => ((t, qr, donel, doner), [CEmit false], Complete)
               end
           | [] => if donel then ((ql, qr, donel, doner), [CEmit false], Complete)
                   else ((ql, qr ++ [x], donel, doner), [], Cont)
           end
       | ISrc (S _) Done =>                                            (* on_completed2 *)
           match qr with
           | [] => match ql with
                   | _ :: _ => ((ql, qr, donel, true), [CEmit false], Complete)
                   | [] => if donel then ((ql, qr, donel, true), [CEmit true], Complete)
                           else ((ql, qr, donel, true), [], Cont)
                   end
           | _ :: _ => ((ql, qr, donel, true), [], Cont)
           end
       | ISrc _ (Err e) => ((ql, qr, donel, doner), [], Fail e)        (* observer.on_error *)
       | _ => ((ql, qr, donel, doner), [], Cont)
       end).
End SeqEqual.
