(* Single-source synchronous operators as Mealy machines.

   One [mealy] value models ONE subscription of an operator: [m_init] is the
   state allocated in subscribe(), [m_next]/[m_err]/[m_done] are the three
   handlers handed to source.subscribe(...).  The two AutoDetachObserver
   wrappers that Observable.subscribe puts around every subscription are
   modelled once, in [exec]: inputs after the source's terminal notification
   are dropped (the wrapper around the operator's handlers), and nothing is
   delivered after the operator emitted a terminal notification (the wrapper
   around the downstream observer), at which point the source subscription is
   disposed, so later inputs do not even reach the handlers.

   Output notifications are tagged with the position of the input during which
   they were emitted: 0 = during subscribe(), k+1 = during the k-th input. *)
From RxVerif Require Import Base.Prelude.

Inductive ev (A : Type) := Next (a : A) | Err (e : Z) | Done.
Arguments Next {A} a. Arguments Err {A} e. Arguments Done {A}.

Inductive res (B : Type) := Ok (b : B) | Raise (e : Z).
Arguments Ok {B} b. Arguments Raise {B} e.

(* how a handler leaves the subscription *)
Inductive fin := Cont | Complete | Fail (e : Z).

Record mealy (A B : Type) := Mealy {
  m_state : Type;
  m_init : m_state;
  m_pre  : list B * fin;                               (* emitted inside subscribe() *)
  m_next : m_state -> A -> m_state * list B * fin;
  m_err  : m_state -> Z -> list B * fin;               (* Cont = stays silent *)
  m_done : m_state -> list B * fin }.
Arguments Mealy {A B m_state}.
Arguments m_state {A B}. Arguments m_init {A B}. Arguments m_pre {A B}.
Arguments m_next {A B}. Arguments m_err {A B}. Arguments m_done {A B}.

Definition is_terminal {A} (e : ev A) : bool := match e with Next _ => false | _ => true end.

Definition emit {B} (k : nat) (outs : list B) (f : fin) : list (nat * ev B) :=
  map (fun b => (k, Next b)) outs ++
  match f with Cont => [] | Complete => [(k, Done)] | Fail e => [(k, Err e)] end.

Definition live (f : fin) : bool := match f with Cont => true | _ => false end.

Section Exec.
Context {A B : Type} (m : mealy A B).

Fixpoint exec_from (s : m_state m) (k : nat) (ins : list (ev A)) : list (nat * ev B) :=
  match ins with
  | [] => []
  | Next x :: rest =>
      let '(s', outs, f) := m_next m s x in
      emit k outs f ++ (if live f then exec_from s' (S k) rest else [])
  | Err e :: _ => let '(outs, f) := m_err m s e in emit k outs f
  | Done :: _ => let '(outs, f) := m_done m s in emit k outs f
  end.

Definition exec (ins : list (ev A)) : list (nat * ev B) :=
  let '(outs, f) := m_pre m in
  emit 0 outs f ++ (if live f then exec_from (m_init m) 1 ins else []).

(* did the subscription end (terminal delivered downstream)? *)
End Exec.

(* a well-behaved source: elements then one terminal (or none) *)
Inductive term := TDone | TErr (e : Z) | TNever.
Definition events {A} (xs : list A) (t : term) : list (ev A) :=
  map Next xs ++ match t with TDone => [Done] | TErr e => [Err e] | TNever => [] end.

(* the notification grammar  Next* (Err | Done)?  *)
Fixpoint wellformed {A} (l : list (ev A)) : bool :=
  match l with
  | [] => true
  | Next _ :: t => wellformed t
  | _ :: t => match t with [] => true | _ => false end
  end.

Definition untag {B} (l : list (nat * ev B)) : list (ev B) := map snd l.

(* ---- sequential composition: m2 consumes what m1 emits, synchronously ---- *)
Section Compose.
Context {A B C : Type} (m1 : mealy A B) (m2 : mealy B C).

(* feed a batch of m1's outputs (elements, then how m1 left) into m2 *)
Fixpoint feed (s2 : m_state m2) (outs : list B) : m_state m2 * list C * fin :=
  match outs with
  | [] => (s2, [], Cont)
  | b :: t =>
      let '(s2', o, f) := m_next m2 s2 b in
      if live f then let '(s2'', o', f') := feed s2' t in (s2'', o ++ o', f')
      else (s2', o, f)
  end.

Definition feed_fin (s2 : m_state m2) (outs : list B) (f1 : fin) : m_state m2 * list C * fin :=
  let '(s2', o, f) := feed s2 outs in
  if live f then
    match f1 with
    | Cont => (s2', o, Cont)
    | Complete => let '(o', f') := m_done m2 s2' in (s2', o ++ o', f')
    | Fail e => let '(o', f') := m_err m2 s2' e in (s2', o ++ o', f')
    end
  else (s2', o, f).

(* Note: when m1 leaves with Complete/Fail but m2 stays silent ([Cont]) the
   composite has no live source any more; it simply stays silent. *)
Definition compose_start : m_state m2 * list C * fin :=
  feed_fin (m_init m2) (fst (m_pre m1)) (snd (m_pre m1)).

Definition compose : mealy A C :=
  {| m_state := m_state m1 * m_state m2 * bool;       (* bool: m1 still subscribed *)
     m_init :=
       (if live (snd (m_pre m2))
        then (m_init m1, fst (fst compose_start), live (snd (m_pre m1)))
        else (m_init m1, m_init m2, false));
     m_pre :=
       (if live (snd (m_pre m2))
        then (fst (m_pre m2) ++ snd (fst compose_start), snd compose_start)
        else m_pre m2);
     m_next := fun st x =>
       let '(s1, s2, on) := st in
       if on then
         let '(s1', o1, f1) := m_next m1 s1 x in
         let '(s2', o, f) := feed_fin s2 o1 f1 in
         ((s1', s2', live f1), o, f)
       else (st, [], Cont);
     m_err := fun st e =>
       let '(s1, s2, on) := st in
       if on then
         let '(o1, f1) := m_err m1 s1 e in
         let '(_, o, f) := feed_fin s2 o1 f1 in (o, f)
       else ([], Cont);
     m_done := fun st =>
       let '(s1, s2, on) := st in
       if on then
         let '(o1, f1) := m_done m1 s1 in
         let '(_, o, f) := feed_fin s2 o1 f1 in (o, f)
       else ([], Cont) |}.
End Compose.
