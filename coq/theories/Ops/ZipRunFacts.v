(* C13: the link from the element-delivery "feeds" (zip_feed, cl_feed, wlf_feed, which
   iterate x_step directly) to the RUNNER: on the corresponding element-only input
   sequence [run] emits exactly the feed's tuples, in order, and nothing else; no
   source is unsubscribed and the output does not terminate.  Also: the release of
   amb's losers as a statement about [run]. *)
From RxVerif Require Import Base.Prelude Ops.Machine Ops.MachineFacts Ops.Multi Ops.MultiFacts
  Ops.RunLemmas Ops.Combinators Ops.MergeFacts Ops.CombineFacts Ops.LatestFacts.

Local Arguments Nat.ltb : simpl never.
Local Arguments Nat.leb : simpl never.

(* element-only input sequences: (time, (source, element)) *)
Definition elem_inputs {A} (tins : list (Z * (nat * A))) : list (Z * inp A) :=
  map (fun tp => (fst tp, ISrc (fst (snd tp)) (Next (snd (snd tp))))) tins.

Section Bridge.
Context {A B : Type} (m : machine A B).

(* the generic feed: iterate the handler on element deliveries, collect the emissions *)
Fixpoint gfeed (st : x_state m) (ins : list (nat * A)) (outs : list B) : x_state m * list B :=
  match ins with
  | [] => (st, outs)
  | (k, x) :: t =>
      let '(st', cs, _) := x_step m st 0 (ISrc k (Next x)) in gfeed st' t (outs ++ cemits cs)
  end.

Lemma gfeed_outs ins : forall st outs,
  gfeed st ins outs = (fst (gfeed st ins []), outs ++ snd (gfeed st ins [])).
Proof.
  induction ins as [|[k x] t IH]; intros st outs.
  - cbn. now rewrite app_nil_r.
  - cbn [gfeed]. destruct (x_step m st 0 (ISrc k (Next x))) as [[st' cs] f].
    rewrite (IH st' (outs ++ cemits cs)), (IH st' ([] ++ cemits cs)). cbn [fst snd app].
    now rewrite app_assoc.
Qed.

Lemma apply_cmds_emit_only (bs : list B) (r : rstate) :
  apply_cmds r (map CEmit bs) = (r, map (fun b => OEmit (Next b)) bs).
Proof.
  induction bs as [|b t IH]; [reflexivity|].
  cbn [map apply_cmds]. rewrite IH. reflexivity.
Qed.

Lemma apply_cmds_sub_only (l : list nat) : forall r,
  apply_cmds (B:=B) r (map CSub l) = (RState (r_live r ++ l) (r_timers r) (r_stopped r), map OSub l).
Proof.
  induction l as [|j t IHl]; intros r.
  - destruct r; cbn. now rewrite app_nil_r.
  - cbn [map apply_cmds]. rewrite IHl. cbn. now rewrite <- app_assoc.
Qed.

Lemma emits_sub_only (l : list nat) : emits (map (@OSub B) l) = [].
Proof. induction l; [reflexivity|exact IHl]. Qed.

Lemma emits_emit_only (bs : list B) : emits (map (fun b => OEmit (Next b)) bs) = map Next bs.
Proof. induction bs as [|b t IH]; [reflexivity|]. cbn. f_equal. exact IH. Qed.

(* P: an invariant of the handler state under which an element of a live source is
   handled with emissions only, without ending the subscription, and independently of
   the clock *)
Variable P : x_state m -> Prop.
Variable live : list nat.
Hypothesis Hstep : forall s now k x, P s -> mem k live = true ->
  exists s' bs, x_step m s now (ISrc k (Next x)) = (s', map CEmit bs, Cont)
                /\ x_step m s 0 (ISrc k (Next x)) = (s', map CEmit bs, Cont) /\ P s'.

Lemma cemits_emit_only (bs : list B) : cemits (map CEmit bs) = bs.
Proof. induction bs as [|b t IH]; [reflexivity|]. cbn. f_equal. exact IH. Qed.

Lemma feed_bridge_from ts (tins : list (Z * (nat * A))) : forall s pos,
  P s -> Forall (fun tp => mem (fst (snd tp)) live = true) tins ->
  emitted (fst (run_from m s (RState live ts false) pos (elem_inputs tins)))
    = map Next (snd (gfeed s (map snd tins) []))
  /\ snd (run_from m s (RState live ts false) pos (elem_inputs tins)) = RState live ts false
  /\ P (fst (gfeed s (map snd tins) [])).
Proof.
  induction tins as [|[now [k x]] rest IH]; intros s pos HP Hf.
  - cbn. auto.
  - inversion Hf as [|? ? Hk Hrest]; subst. cbn [fst snd] in Hk.
    destruct (Hstep s now k x HP Hk) as (s' & bs & E1 & E0 & HP').
    cbn [elem_inputs map fst snd run_from gfeed]. fold (elem_inputs rest).
    assert (E : rstep m s (RState live ts false) now (ISrc k (Next x))
                = (s', RState live ts false, map (fun b => OEmit (Next b)) bs)).
    { unfold rstep. cbn [r_stopped r_live]. rewrite Hk, E1, apply_cmds_emit_only.
      cbn [is_terminal andb finish]. now rewrite !app_nil_r. }
    rewrite E, E0. destruct (IH s' (S pos) HP' Hrest) as (IH1 & IH2 & IH3).
    destruct (run_from m s' (RState live ts false) (S pos) (elem_inputs rest)) as [tr rf].
    cbn [fst snd] in *. rewrite emitted_tag_app, emits_emit_only, IH1.
    rewrite (gfeed_outs (map snd rest) s' ([] ++ cemits (map CEmit bs))). cbn [fst snd app].
    rewrite cemits_emit_only, map_app. auto.
Qed.

(* the whole run, when subscribe() only subscribes the sources *)
Lemma feed_bridge_run s0 (tins : list (Z * (nat * A))) :
  x_start m = (s0, map CSub live, Cont) ->
  P s0 -> Forall (fun tp => mem (fst (snd tp)) live = true) tins ->
  emitted (fst (run m (elem_inputs tins))) = map Next (snd (gfeed s0 (map snd tins) []))
  /\ snd (run m (elem_inputs tins)) = RState live [] false.
Proof.
  intros Hstart HP Hf. rewrite run_unfold. unfold start_state, start_obs. rewrite Hstart.
  rewrite apply_cmds_sub_only. cbn [fst snd finish r_live r_timers r_stopped app].
  destruct (feed_bridge_from [] tins s0 1%nat HP Hf) as (H1 & H2 & _).
  rewrite emitted_tag_app, app_nil_r, emits_sub_only. cbn [app]. auto.
Qed.
End Bridge.

Lemma mem_in_iff k l : mem k l = true <-> In k l.
Proof.
  unfold mem. rewrite existsb_exists. split.
  - intros [j [Hj E]]. apply Nat.eqb_eq in E. now subst.
  - intros H. exists k. split; [exact H|apply Nat.eqb_refl].
Qed.

Lemma mem_seq0 k n : (k < n)%nat -> mem k (seq 0 n) = true.
Proof. intros H. apply mem_in_iff, in_seq. lia. Qed.

(* ---- zip ------------------------------------------------------------------- *)
Section ZipRun.
Context {A : Type}.

Lemma zip_feed_gfeed n (ins : list (nat * A)) : forall st outs,
  zip_feed n st ins outs = gfeed (x_zip n) st ins outs.
Proof.
  induction ins as [|[k x] t IH]; intros st outs; [reflexivity|].
  cbn [zip_feed gfeed]. destruct (x_step (x_zip n) st 0 (ISrc k (Next x))) as [[st' cs] f]. apply IH.
Qed.

Lemma existsb_combine_none_done (qs : list (list A)) : forall n,
  existsb (fun qd : list A * bool => Nat.eqb (length (fst qd)) 0 && snd qd) (combine qs (repeat false n)) = false.
Proof.
  induction qs as [|q t IH]; intros n; [reflexivity|].
  destruct n as [|n']; [reflexivity|]. cbn [repeat combine existsb fst snd].
  now rewrite andb_false_r, IH.
Qed.

Lemma zip_elem_step n (s : x_state (x_zip (A:=A) n)) now k x :
  snd s = repeat false n ->
  exists s' bs, x_step (x_zip n) s now (ISrc k (Next x)) = (s', map CEmit bs, Cont)
                /\ x_step (x_zip n) s 0 (ISrc k (Next x)) = (s', map CEmit bs, Cont)
                /\ snd s' = repeat false n.
Proof.
  destruct s as [queues done]. cbn [snd]. intros ->. cbn [x_zip x_step].
  destruct (all_nonempty (nth_set k (nth k queues [] ++ [x]) queues)).
  - rewrite existsb_combine_none_done.
    eexists. exists [map (fun q => match q with [] => x | v :: _ => v end)
                        (nth_set k (nth k queues [] ++ [x]) queues)].
    cbn [map]. repeat split.
  - eexists. exists []. cbn [map]. repeat split.
Qed.

(* the RUNNER on element deliveries only: exactly the tuples of zip_feed are emitted (so
   C13_zip_pairing is a statement about [run]); nothing is unsubscribed and no
   termination is emitted *)
Theorem zip_run_is_feed n (tins : list (Z * (nat * A))) :
  Forall (fun tp => (fst (snd tp) < n)%nat) tins ->
  emitted (fst (run (x_zip n) (elem_inputs tins)))
    = map Next (snd (zip_feed n (repeat [] n, repeat false n) (map snd tins) []))
  /\ snd (run (x_zip n) (elem_inputs tins)) = RState (seq 0 n) [] false.
Proof.
  intros Hf. rewrite zip_feed_gfeed.
  apply (feed_bridge_run (x_zip n) (fun s => snd s = repeat false n) (seq 0 n)).
  - intros s now k x HP _. apply zip_elem_step. exact HP.
  - reflexivity.
  - reflexivity.
  - eapply Forall_impl; [|exact Hf]. intros tp H. now apply mem_seq0.
Qed.
End ZipRun.

(* ---- combine_latest ---------------------------------------------------------- *)
Section ClRun.
Context {A : Type}.

Lemma cl_feed_gfeed n (ins : list (nat * A)) : forall st outs,
  cl_feed n st ins outs = gfeed (x_combine_latest n) st ins outs.
Proof.
  induction ins as [|[k x] t IH]; intros st outs; [reflexivity|].
  cbn [cl_feed gfeed]. destruct (x_step (x_combine_latest n) st 0 (ISrc k (Next x))) as [[st' cs] f]. apply IH.
Qed.

Lemma in_combine_seq_none_done n : forall s j, (j < n)%nat ->
  In ((s + j)%nat, false) (combine (seq s n) (repeat false n)).
Proof.
  induction n as [|n' IH]; intros s j Hj; [lia|].
  cbn [seq repeat combine]. destruct j as [|j'].
  - left. now rewrite Nat.add_0_r.
  - right. replace (s + S j')%nat with (S s + j')%nat by lia. apply IH. lia.
Qed.

(* while no source has completed, "every OTHER source is done" is false unless the
   delivering source is the only one -- and then its element completes the snapshot *)
Lemma cl_others_not_done n k (values : list (option A)) x :
  (k < n)%nat -> length values = n ->
  forallb (fun v : option A => match v with Some _ => true | None => false end)
          (nth_set k (Some x) values) = false ->
  forallb (fun jd : nat * bool => Nat.eqb (fst jd) k || snd jd) (combine (seq 0 n) (repeat false n)) = false.
Proof.
  intros Hk Hlen Hnot.
  destruct (forallb (fun jd : nat * bool => Nat.eqb (fst jd) k || snd jd) (combine (seq 0 n) (repeat false n))) eqn:E;
    [|reflexivity].
  exfalso. rewrite forallb_forall in E.
  destruct n as [|[|n2]]; [lia| |].
  - assert (k = 0%nat) by lia. subst k.
    destruct values as [|v [|? ?]]; try discriminate.
  - set (j := if Nat.eqb k 0 then 1%nat else 0%nat).
    assert (Hj : (j < S (S n2))%nat) by (subst j; destruct (Nat.eqb k 0); lia).
    specialize (E _ (in_combine_seq_none_done (S (S n2)) 0%nat j Hj)).
    cbn [fst snd Nat.add] in E. rewrite orb_false_r in E. apply Nat.eqb_eq in E.
    subst j. destruct (Nat.eqb_spec k 0); lia.
Qed.

Lemma cl_elem_step n (s : x_state (x_combine_latest (A:=A) n)) now k x :
  (k < n)%nat -> length (fst (fst s)) = n /\ snd s = repeat false n ->
  exists s' bs, x_step (x_combine_latest n) s now (ISrc k (Next x)) = (s', map CEmit bs, Cont)
                /\ x_step (x_combine_latest n) s 0 (ISrc k (Next x)) = (s', map CEmit bs, Cont)
                /\ (length (fst (fst s')) = n /\ snd s' = repeat false n).
Proof.
  destruct s as [[values hva] done]. cbn [fst snd]. intros Hk [Hlen ->]. cbn [x_combine_latest x_step].
  assert (Hlen1 : length (nth_set k (Some x) values) = n) by (rewrite nth_set_length; lia).
  destruct hva; cbn [orb].
  - eexists. exists [flat_map (fun v : option A => match v with Some y => [y] | None => [] end)
                               (nth_set k (Some x) values)].
    cbn [map fst snd]. repeat split. exact Hlen1.
  - destruct (forallb (fun v : option A => match v with Some _ => true | None => false end)
                      (nth_set k (Some x) values)) eqn:Hall.
    + eexists. exists [flat_map (fun v : option A => match v with Some y => [y] | None => [] end)
                                 (nth_set k (Some x) values)].
      cbn [map fst snd]. repeat split. exact Hlen1.
    + rewrite (cl_others_not_done n k values x Hk Hlen Hall).
      eexists. exists []. cbn [map fst snd]. repeat split. exact Hlen1.
Qed.

Theorem cl_run_is_feed n (tins : list (Z * (nat * A))) :
  Forall (fun tp => (fst (snd tp) < n)%nat) tins ->
  emitted (fst (run (x_combine_latest n) (elem_inputs tins)))
    = map Next (snd (cl_feed n (repeat None n, false, repeat false n) (map snd tins) []))
  /\ snd (run (x_combine_latest n) (elem_inputs tins)) = RState (seq 0 n) [] false.
Proof.
  intros Hf. rewrite cl_feed_gfeed.
  apply (feed_bridge_run (x_combine_latest n)
           (fun s => length (fst (fst s)) = n /\ snd s = repeat false n) (seq 0 n)).
  - intros s now k x HP Hm. apply cl_elem_step; [|exact HP].
    apply mem_in_iff, in_seq in Hm. lia.
  - reflexivity.
  - cbn [fst snd]. split; [apply repeat_length|reflexivity].
  - eapply Forall_impl; [|exact Hf]. intros tp H. now apply mem_seq0.
Qed.

(* with the closed form: the runner emits exactly the full snapshots *)
Corollary cl_run_closed_form n (tins : list (Z * (nat * A))) :
  (0 < n)%nat -> Forall (fun tp => (fst (snd tp) < n)%nat) tins ->
  emitted (fst (run (x_combine_latest n) (elem_inputs tins))) = map Next (cl_spec n [] (map snd tins)).
Proof.
  intros Hn Hf. rewrite (proj1 (cl_run_is_feed n tins Hf)).
  rewrite combine_latest_closed_form; [reflexivity|exact Hn|].
  apply Forall_map. exact Hf.
Qed.
End ClRun.

(* ---- with_latest_from ---------------------------------------------------------- *)
Section WlfRun.
Context {A : Type}.

Lemma wlf_feed_gfeed n (ins : list (nat * A)) : forall st outs,
  wlf_feed n st ins outs = gfeed (x_with_latest_from n) st ins outs.
Proof.
  induction ins as [|[k x] t IH]; intros st outs; [reflexivity|].
  cbn [wlf_feed gfeed]. destruct (x_step (x_with_latest_from n) st 0 (ISrc k (Next x))) as [[st' cs] f]. apply IH.
Qed.

Lemma wlf_elem_step n (s : x_state (x_with_latest_from (A:=A) n)) now k x :
  exists s' bs, x_step (x_with_latest_from n) s now (ISrc k (Next x)) = (s', map CEmit bs, Cont)
                /\ x_step (x_with_latest_from n) s 0 (ISrc k (Next x)) = (s', map CEmit bs, Cont) /\ True.
Proof.
  destruct k as [|j]; cbn [x_with_latest_from x_step].
  - destruct (forallb (fun v : option A => match v with Some _ => true | None => false end) s).
    + eexists. exists [x :: flat_map (fun v : option A => match v with Some y => [y] | None => [] end) s].
      cbn [map]. repeat split.
    + eexists. exists []. cbn [map]. repeat split.
  - eexists. exists []. cbn [map]. repeat split.
Qed.

Lemma mem_wlf_live k n : (k <= n)%nat -> mem k (seq 1 n ++ [0%nat]) = true.
Proof.
  intros H. apply mem_in_iff, in_or_app. destruct k as [|j]; [right; left; reflexivity|left].
  apply in_seq. lia.
Qed.

Theorem wlf_run_is_feed n (tins : list (Z * (nat * A))) :
  Forall (fun tp => (fst (snd tp) <= n)%nat) tins ->
  emitted (fst (run (x_with_latest_from n) (elem_inputs tins)))
    = map Next (snd (wlf_feed n (repeat None n) (map snd tins) []))
  /\ snd (run (x_with_latest_from n) (elem_inputs tins)) = RState (seq 1 n ++ [0%nat]) [] false.
Proof.
  intros Hf. rewrite wlf_feed_gfeed.
  apply (feed_bridge_run (x_with_latest_from n) (fun _ => True) (seq 1 n ++ [0%nat])).
  - intros s now k x _ _. apply wlf_elem_step.
  - cbn [x_with_latest_from x_start]. now rewrite map_app.
  - exact I.
  - eapply Forall_impl; [|exact Hf]. intros tp H. now apply mem_wlf_live.
Qed.

Corollary wlf_run_closed_form n (tins : list (Z * (nat * A))) :
  Forall (fun tp => (fst (snd tp) <= n)%nat) tins ->
  emitted (fst (run (x_with_latest_from n) (elem_inputs tins))) = map Next (wlf_spec n [] (map snd tins)).
Proof.
  intros Hf. rewrite (proj1 (wlf_run_is_feed n tins Hf)).
  rewrite with_latest_from_closed_form; [reflexivity|]. apply Forall_map. exact Hf.
Qed.
End WlfRun.

(* ---- amb: the losers are released, as a statement about [run] ------------------ *)
Section AmbRun.
Context {A : Type}.

(* inputs that do not make amb choose: notifications of sources it does not have, timer ticks *)
Definition amb_quiet (n : nat) (ti : Z * inp A) : Prop :=
  match snd ti with ISrc k _ => (n <= k)%nat | ITick _ => True | IDispose => False end.

(* once a winner is chosen: it stays the ONLY live subscription until the end *)
Lemma amb_chosen_final n (ins : list (Z * inp A)) : forall c pos,
  snd (run_from (x_amb n) (Some c) (RState [c] [] false) pos ins) = RState [c] [] false
  \/ snd (run_from (x_amb n) (Some c) (RState [c] [] false) pos ins) = RState [] [] true.
Proof.
  induction ins as [|[now i] rest IH]; intros c pos; [left; reflexivity|].
  cbn [run_from].
  assert (Hstay : rstep (x_amb (A:=A) n) (Some c) (RState [c] [] false) now i = (Some c, RState [c] [] false, [])
                  -> snd (let '(s', r', o) := rstep (x_amb (A:=A) n) (Some c) (RState [c] [] false) now i in
                          let '(tr, rf) := run_from (x_amb n) s' r' (S pos) rest in
                          (map (fun x => (pos, x)) o ++ tr, rf)) = RState [c] [] false
                     \/ snd (let '(s', r', o) := rstep (x_amb (A:=A) n) (Some c) (RState [c] [] false) now i in
                          let '(tr, rf) := run_from (x_amb n) s' r' (S pos) rest in
                          (map (fun x => (pos, x)) o ++ tr, rf)) = RState [] [] true).
  { intros E. rewrite E. specialize (IH c (S pos)).
    destruct (run_from (x_amb n) (Some c) (RState [c] [] false) (S pos) rest) as [tr rf]. exact IH. }
  assert (Hstop : forall s' o, rstep (x_amb (A:=A) n) (Some c) (RState [c] [] false) now i = (s', RState [] [] true, o)
                  -> snd (let '(s', r', o) := rstep (x_amb (A:=A) n) (Some c) (RState [c] [] false) now i in
                          let '(tr, rf) := run_from (x_amb n) s' r' (S pos) rest in
                          (map (fun x => (pos, x)) o ++ tr, rf)) = RState [] [] true).
  { intros s' o E. rewrite E. rewrite run_from_stopped by reflexivity. reflexivity. }
  destruct i as [k e|tag|].
  - destruct (Nat.eqb_spec k c) as [->|Hne].
    + destruct e as [x|err|].
      * assert (E : rstep (x_amb (A:=A) n) (Some c) (RState [c] [] false) now (ISrc c (Next x))
                    = (Some c, RState [c] [] false, [OEmit (Next x)])).
        { unfold rstep. cbn. rewrite !Nat.eqb_refl. cbn. reflexivity. }
        rewrite E. specialize (IH c (S pos)).
        destruct (run_from (x_amb n) (Some c) (RState [c] [] false) (S pos) rest) as [tr rf]. exact IH.
      * right. eapply Hstop. unfold rstep. do 3 (cbn; rewrite ?Nat.eqb_refl). reflexivity.
      * right. eapply Hstop. unfold rstep. do 3 (cbn; rewrite ?Nat.eqb_refl). reflexivity.
    + apply Hstay. unfold rstep. cbn. destruct (Nat.eqb_spec k c); [congruence|]. reflexivity.
  - apply Hstay. reflexivity.
  - right. eapply Hstop. unfold rstep. cbn. reflexivity.
Qed.

Lemma amb_open_quiet n (pre : list (Z * inp A)) : forall pos rest,
  Forall (amb_quiet n) pre ->
  snd (run_from (x_amb n) None (RState (rev (seq 0 n)) [] false) pos (pre ++ rest))
  = snd (run_from (x_amb n) None (RState (rev (seq 0 n)) [] false) (pos + length pre) rest).
Proof.
  induction pre as [|[now i] t IH]; intros pos rest Hq.
  - cbn. now rewrite Nat.add_0_r.
  - inversion Hq as [|? ? Hi Ht]; subst. cbn [app run_from length].
    assert (E : rstep (x_amb (A:=A) n) None (RState (rev (seq 0 n)) [] false) now i
                = (None, RState (rev (seq 0 n)) [] false, [])).
    { unfold amb_quiet in Hi. cbn [snd] in Hi. destruct i as [k e|tag|]; [|reflexivity|contradiction].
      unfold rstep. cbn [r_stopped r_live]. rewrite mem_rev_seq.
      destruct (Nat.ltb_spec k n); [lia|reflexivity]. }
    rewrite E. specialize (IH (S pos) rest Ht).
    destruct (run_from (x_amb n) None (RState (rev (seq 0 n)) [] false) (S pos) (t ++ rest)) as [tr rf].
    cbn [snd] in *. rewrite IH. now rewrite Nat.add_succ_r.
Qed.

(* the winner's first notification: in that very step every other source is unsubscribed *)
Lemma amb_winner_step n now w (e : ev A) : (w < n)%nat ->
  snd (fst (rstep (x_amb n) None (RState (rev (seq 0 n)) [] false) now (ISrc w e)))
  = match e with Next _ => RState [w] [] false | _ => RState [] [] true end
  /\ fst (fst (rstep (x_amb n) None (RState (rev (seq 0 n)) [] false) now (ISrc w e))) = Some w.
Proof.
  intros Hlt.
  assert (Hmem : mem w (rev (seq 0 n)) = true) by (rewrite mem_rev_seq; now apply Nat.ltb_lt).
  set (others := filter (fun j => negb (Nat.eqb j w)) (seq 0 n)).
  assert (Hrel : fst (apply_cmds (B:=A) (RState (rev (seq 0 n)) [] false) (map CUnsub others))
                 = RState [w] [] false).
  { apply apply_unsub_others.
    - apply NoDup_rev, seq_NoDup.
    - apply -> in_rev. apply in_seq. lia.
    - apply filter_others.
    - intros j Hj. apply in_rev in Hj.
      destruct (Nat.eq_dec j w) as [->|Hne]; [left; reflexivity|right].
      apply filter_In. split; [exact Hj|]. destruct (Nat.eqb_spec j w); [congruence|reflexivity]. }
  unfold rstep. cbn [r_stopped r_live]. rewrite Hmem. cbn [x_amb x_step]. rewrite Nat.eqb_refl. fold others.
  destruct e as [x|err|].
  - rewrite apply_cmds_app, Hrel. cbn [fst snd apply_cmds is_terminal andb finish]. split; reflexivity.
  - destruct (apply_cmds (RState (rev (seq 0 n)) [] false) (map CUnsub others)) as [r1 o1].
    cbn [fst] in Hrel. subst r1. cbn. rewrite Nat.eqb_refl. cbn. split; reflexivity.
  - destruct (apply_cmds (RState (rev (seq 0 n)) [] false) (map CUnsub others)) as [r1 o1].
    cbn [fst] in Hrel. subst r1. cbn. rewrite Nat.eqb_refl. cbn. split; reflexivity.
Qed.

(* RUN-LEVEL: as soon as one of the n sources has notified (w, the first to do so), on EVERY
   continuation [post] the winner is the only source that can still be subscribed: the final runner
   state is "exactly w live" or "everything released".  With post = []: the losers are
   unsubscribed within the winner's first notification. *)
Theorem amb_run_losers_released n (pre post : list (Z * inp A)) now w e :
  Forall (amb_quiet n) pre -> (w < n)%nat ->
  snd (run (x_amb n) (pre ++ (now, ISrc w e) :: post)) = RState [w] [] false
  \/ snd (run (x_amb n) (pre ++ (now, ISrc w e) :: post)) = RState [] [] true.
Proof.
  intros Hq Hw. rewrite run_unfold. cbn [snd]. unfold start_state. cbn [x_amb x_start].
  rewrite apply_cmds_sub_only. cbn [fst snd finish r_live r_timers r_stopped app].
  rewrite (amb_open_quiet n pre 1 _ Hq). cbn [run_from].
  destruct (amb_winner_step n now w e Hw) as [E1 E2].
  destruct (rstep (x_amb n) None (RState (rev (seq 0 n)) [] false) now (ISrc w e)) as [[s' r'] o].
  cbn [fst snd] in E1, E2. subst s'.
  destruct e as [x|err|]; subst r'.
  - pose proof (amb_chosen_final n post w (S (1 + length pre))) as H.
    destruct (run_from (x_amb n) (Some w) (RState [w] [] false) (S (1 + length pre)) post) as [tr rf]. exact H.
  - right. now rewrite run_from_stopped.
  - right. now rewrite run_from_stopped.
Qed.

(* the decomposition exists exactly when the specification emits something *)
Lemma amb_spec_nonempty_winner n (ins : list (Z * inp A)) : forall pos,
  amb_spec n None pos ins <> [] ->
  exists pre now w e post, ins = pre ++ (now, ISrc w e) :: post /\ Forall (amb_quiet n) pre /\ (w < n)%nat.
Proof.
  induction ins as [|[now i] rest IH]; intros pos H; [contradiction|].
  cbn [amb_spec] in H. destruct i as [k e|tag|].
  - destruct (Nat.ltb_spec k n) as [Hlt|Hge].
    + exists [], now, k, e, rest. repeat split; [constructor|exact Hlt].
    + destruct (IH _ H) as (pre & now' & w & e' & post & -> & Hq & Hw).
      exists ((now, ISrc k e) :: pre), now', w, e', post. repeat split; [|exact Hw].
      constructor; [exact Hge|exact Hq].
  - destruct (IH _ H) as (pre & now' & w & e' & post & -> & Hq & Hw).
    exists ((now, ITick tag) :: pre), now', w, e', post. repeat split; [|exact Hw].
    constructor; [exact I|exact Hq].
  - contradiction.
Qed.

(* the audit's form: whenever amb has forwarded anything at all, at most ONE source (one of the n)
   is still subscribed at the end of the run *)
Corollary amb_run_at_most_winner_live n (ins : list (Z * inp A)) :
  amb_spec n None 1 ins <> [] ->
  exists w, (w < n)%nat /\
    (snd (run (x_amb n) ins) = RState [w] [] false \/ snd (run (x_amb n) ins) = RState [] [] true).
Proof.
  intros H. destruct (amb_spec_nonempty_winner n ins 1 H) as (pre & now & w & e & post & -> & Hq & Hw).
  exists w. split; [exact Hw|]. now apply amb_run_losers_released.
Qed.
End AmbRun.
