(* C05: each element-wise machine computes the equivalent list computation,
   every output tagged with the input that determines it. *)
From RxVerif Require Import Base.Prelude Base.PreludeFacts Ops.Machine Ops.MachineFacts
  Ops.Elementwise Ops.Slice Ops.SliceFacts.

Local Arguments Z.of_nat : simpl never.
Local Arguments Z.to_nat : simpl never.
Local Arguments Z.sub : simpl never.
Local Arguments Z.leb : simpl never.
Local Arguments Z.gtb : simpl never.
Local Arguments Z.eqb : simpl never.
Local Arguments Z.add : simpl never.

Ltac term_case t := destruct t as [|e|]; cbn; rewrite ?Nat.add_0_r; try reflexivity.
Ltac step_cons := rewrite events_cons, exec_from_cons; cbn -[exec_from].

Fixpoint mapi_from {A B} (i : nat) (f : A -> nat -> B) (xs : list A) : list B :=
  match xs with [] => [] | x :: t => f x i :: mapi_from (S i) f t end.

(* keep the (tag, element) pairs whose element passes, the predicate seeing
   the element's index *)
Fixpoint filteri_from {A} (i : nat) (p : A -> nat -> bool) (l : list (nat * A)) : list (nat * A) :=
  match l with
  | [] => []
  | (k, x) :: t => if p x i then (k, x) :: filteri_from (S i) p t else filteri_from (S i) p t
  end.

(* the output trace of one stage as the input stream of the next one *)
Definition untag_next {B} (l : list (nat * ev B)) : list (ev B) := map snd l.

Section Facts.
Context {A B : Type}.

(* ---- map ---------------------------------------------------------------- *)
Lemma map_from (f : A -> B) xs t s k :
  exec_from (op_map (pure f)) s k (events xs t)
  = nexts (indexed k (map f xs)) ++ tterm (k + length xs) t.
Proof.
  revert k; induction xs as [|x r IH]; intros k.
  - term_case t.
  - step_cons. rewrite IH. now rewrite Nat.add_succ_comm.
Qed.

Theorem map_spec (f : A -> B) xs t :
  exec (op_map (pure f)) (events xs t)
  = nexts (indexed 1 (map f xs)) ++ tterm (S (length xs)) t.
Proof. unfold exec. cbn -[exec_from]. apply map_from. Qed.

Lemma map_indexed_from (f : A -> nat -> B) xs t i k :
  exec_from (op_map_indexed (pure2 f)) i k (events xs t)
  = nexts (indexed k (mapi_from i f xs)) ++ tterm (k + length xs) t.
Proof.
  revert i k; induction xs as [|x r IH]; intros i k.
  - term_case t.
  - step_cons. rewrite IH. now rewrite Nat.add_succ_comm.
Qed.

Theorem map_indexed_spec (f : A -> nat -> B) xs t :
  exec (op_map_indexed (pure2 f)) (events xs t)
  = nexts (indexed 1 (mapi_from 0 f xs)) ++ tterm (S (length xs)) t.
Proof. unfold exec. cbn -[exec_from]. apply map_indexed_from. Qed.
End Facts.

Section FactsA.
Context {A : Type}.

(* ---- filter ------------------------------------------------------------- *)
Lemma filter_from (p : A -> bool) xs t s k :
  exec_from (op_filter (pure p)) s k (events xs t)
  = nexts (filter (fun kx => p (snd kx)) (indexed k xs)) ++ tterm (k + length xs) t.
Proof.
  revert k; induction xs as [|x r IH]; intros k.
  - term_case t.
  - step_cons. unfold pure. destruct (p x); cbn -[exec_from]; rewrite IH;
      now rewrite Nat.add_succ_comm.
Qed.

Theorem filter_spec (p : A -> bool) xs t :
  exec (op_filter (pure p)) (events xs t)
  = nexts (filter (fun kx => p (snd kx)) (indexed 1 xs)) ++ tterm (S (length xs)) t.
Proof. unfold exec. cbn -[exec_from]. apply filter_from. Qed.

Lemma filter_indexed_from (p : A -> nat -> bool) (xs : list A) t i k :
  exec_from (op_filter_indexed (pure2 p)) i k (events xs t)
  = nexts (filteri_from i p (indexed k xs)) ++ tterm (k + length xs) t.
Proof.
  revert i k; induction xs as [|x r IH]; intros i k.
  - term_case t.
  - step_cons. unfold pure2. destruct (p x i); cbn -[exec_from]; rewrite IH;
      now rewrite Nat.add_succ_comm.
Qed.

Theorem filter_indexed_spec (p : A -> nat -> bool) (xs : list A) t :
  exec (op_filter_indexed (pure2 p)) (events xs t)
  = nexts (filteri_from 0 p (indexed 1 xs)) ++ tterm (S (length xs)) t.
Proof. unfold exec. cbn -[exec_from]. apply filter_indexed_from. Qed.

(* ---- take --------------------------------------------------------------- *)
Lemma take_from (xs : list A) t (c0 c : Z) k : 0 < c ->
  exec_from (op_take c0) c k (events xs t)
  = if c <=? zlen xs
    then nexts (indexed k (firstn (Z.to_nat c) xs)) ++ [((k + Z.to_nat c - 1)%nat, Done)]
    else nexts (indexed k xs) ++ tterm (k + length xs) t.
Proof.
  revert c k; induction xs as [|x r IH]; intros c k Hc.
  - destruct (Z.leb_spec c (zlen (@nil A))) as [H|H]; [unfold zlen in H; cbn [length] in H; lia|]. term_case t.
  - step_cons. destruct (Z.gtb_spec c 0) as [_|?]; [|lia].
    cbn -[exec_from]. unfold zlen. cbn [length].
    destruct (Z.eqb_spec (c - 1) 0) as [H1|H1].
    + assert (c = 1) by lia. subst c. cbn.
      destruct (Z.leb_spec 1 (Z.of_nat (S (length r)))); [|lia].
      change (Z.to_nat 1) with 1%nat. cbn. do 2 f_equal. f_equal. lia.
    + cbn -[exec_from]. rewrite IH by lia. unfold zlen.
      destruct (Z.leb_spec (c - 1) (Z.of_nat (length r))) as [H|H];
        destruct (Z.leb_spec c (Z.of_nat (S (length r)))) as [H'|H']; try lia.
      * replace (Z.to_nat c) with (S (Z.to_nat (c - 1))) by lia. cbn.
        f_equal. unfold nexts. f_equal. do 2 f_equal. lia.
      * cbn. f_equal. f_equal. f_equal; lia.
Qed.

Theorem take_spec (xs : list A) t (c : Z) : 0 <= c ->
  exec (op_take c) (events xs t)
  = if c =? 0 then [(0%nat, Done)]
    else if c <=? zlen xs
    then nexts (indexed 1 (firstn (Z.to_nat c) xs)) ++ [(Z.to_nat c, Done)]
    else nexts (indexed 1 xs) ++ tterm (S (length xs)) t.
Proof.
  intros Hc. unfold exec. cbn -[exec_from].
  destruct (Z.eqb_spec c 0) as [->|H]; [reflexivity|].
  cbn -[exec_from]. rewrite take_from by lia.
  destruct (c <=? zlen xs); [|reflexivity].
  do 3 f_equal. lia.
Qed.

(* ---- skip --------------------------------------------------------------- *)
Lemma skip_from (xs : list A) t (c0 c : Z) k :
  exec_from (op_skip c0) c k (events xs t)
  = nexts (skipn (Z.to_nat c) (indexed k xs)) ++ tterm (k + length xs) t.
Proof.
  revert c k; induction xs as [|x r IH]; intros c k.
  - rewrite skipn_nil. term_case t.
  - step_cons. destruct (Z.leb_spec c 0) as [H|H]; cbn -[exec_from]; rewrite IH.
    + replace (Z.to_nat c) with 0%nat by lia.
      replace (Z.to_nat (c - 0)) with 0%nat by lia. cbn. now rewrite <- ?plus_n_Sm.
    + replace (Z.to_nat c) with (S (Z.to_nat (c - 1))) by lia. cbn.
      now rewrite <- ?plus_n_Sm.
Qed.

Theorem skip_spec (xs : list A) t (c : Z) :
  exec (op_skip c) (events xs t)
  = nexts (skipn (Z.to_nat c) (indexed 1 xs)) ++ tterm (S (length xs)) t.
Proof. unfold exec. cbn -[exec_from]. apply skip_from. Qed.

(* ---- take_while / skip_while ---------------------------------------------- *)
Fixpoint takewhile (p : A -> bool) (l : list (nat * A)) : list (nat * A) :=
  match l with [] => [] | kx :: t => if p (snd kx) then kx :: takewhile p t else [] end.
Fixpoint dropwhile (p : A -> bool) (l : list (nat * A)) : list (nat * A) :=
  match l with [] => [] | kx :: t => if p (snd kx) then dropwhile p t else l end.
(* the first element failing the predicate, with its tag *)
Fixpoint first_failing (p : A -> bool) (l : list (nat * A)) : option (nat * A) :=
  match l with [] => None | kx :: t => if p (snd kx) then first_failing p t else Some kx end.

Lemma take_while_from (p : A -> bool) inclusive (xs : list A) t k :
  exec_from (op_take_while (pure p) inclusive) true k (events xs t)
  = nexts (takewhile p (indexed k xs)) ++
    match first_failing p (indexed k xs) with
    | Some (j, x) => (if inclusive then [(j, Next x)] else []) ++ [(j, Done)]
    | None => tterm (k + length xs) t
    end.
Proof.
  revert k; induction xs as [|x r IH]; intros k.
  - term_case t.
  - step_cons. unfold pure. destruct (p x); cbn -[exec_from].
    + rewrite IH. now rewrite <- ?plus_n_Sm.
    + destruct inclusive; reflexivity.
Qed.

Theorem take_while_spec (p : A -> bool) inclusive (xs : list A) t :
  exec (op_take_while (pure p) inclusive) (events xs t)
  = nexts (takewhile p (indexed 1 xs)) ++
    match first_failing p (indexed 1 xs) with
    | Some (j, x) => (if inclusive then [(j, Next x)] else []) ++ [(j, Done)]
    | None => tterm (S (length xs)) t
    end.
Proof. unfold exec. cbn -[exec_from]. apply take_while_from. Qed.

Lemma skip_while_running (p : A -> res bool) (xs : list A) t k :
  exec_from (op_skip_while p) true k (events xs t)
  = nexts (indexed k xs) ++ tterm (k + length xs) t.
Proof.
  revert k; induction xs as [|x r IH]; intros k.
  - term_case t.
  - step_cons. rewrite IH. now rewrite <- ?plus_n_Sm.
Qed.

Lemma skip_while_from (p : A -> bool) (xs : list A) t k :
  exec_from (op_skip_while (pure p)) false k (events xs t)
  = nexts (dropwhile p (indexed k xs)) ++ tterm (k + length xs) t.
Proof.
  revert k; induction xs as [|x r IH]; intros k.
  - term_case t.
  - step_cons. unfold pure. destruct (p x); cbn -[exec_from].
    + rewrite IH. now rewrite <- ?plus_n_Sm.
    + rewrite skip_while_running. now rewrite <- ?plus_n_Sm.
Qed.

Theorem skip_while_spec (p : A -> bool) (xs : list A) t :
  exec (op_skip_while (pure p)) (events xs t)
  = nexts (dropwhile p (indexed 1 xs)) ++ tterm (S (length xs)) t.
Proof. unfold exec. cbn -[exec_from]. apply skip_while_from. Qed.

(* ---- pairwise ------------------------------------------------------------- *)
Fixpoint pairs_from (prev : A) (k : nat) (xs : list A) : list (nat * (A * A)) :=
  match xs with [] => [] | x :: t => (k, (prev, x)) :: pairs_from x (S k) t end.

Lemma pairwise_from (xs : list A) t prev k :
  exec_from op_pairwise (Some prev) k (events xs t)
  = nexts (pairs_from prev k xs) ++ tterm (k + length xs) t.
Proof.
  revert prev k; induction xs as [|x r IH]; intros prev k.
  - term_case t.
  - step_cons. rewrite IH. now rewrite <- ?plus_n_Sm.
Qed.

(* (x_k, x_{k+1}) is emitted when x_{k+1} arrives *)
Theorem pairwise_spec (xs : list A) t :
  exec op_pairwise (events xs t)
  = match xs with
    | [] => tterm 1 t
    | x :: r => nexts (pairs_from x 2 r) ++ tterm (S (length xs)) t
    end.
Proof.
  unfold exec. cbn -[exec_from]. destruct xs as [|x r].
  - term_case t.
  - step_cons. rewrite pairwise_from. reflexivity.
Qed.

(* ---- pass-through family ---------------------------------------------------- *)
Lemma start_with_from (args xs : list A) t k :
  exec_from (op_start_with args) tt k (events xs t)
  = nexts (indexed k xs) ++ tterm (k + length xs) t.
Proof.
  revert k; induction xs as [|x r IH]; intros k.
  - term_case t.
  - step_cons. rewrite IH. now rewrite <- ?plus_n_Sm.
Qed.

Theorem start_with_spec (args xs : list A) t :
  exec (op_start_with args) (events xs t)
  = nexts (map (fun a => (0%nat, a)) args) ++ nexts (indexed 1 xs) ++ tterm (S (length xs)) t.
Proof.
  unfold exec. cbn -[exec_from]. rewrite emit_cont, start_with_from.
  unfold nexts. now rewrite map_map.
Qed.

Lemma default_if_empty_found d (xs : list A) t k :
  exec_from (op_default_if_empty d) true k (events xs t)
  = nexts (indexed k xs) ++ tterm (k + length xs) t.
Proof.
  revert k; induction xs as [|x r IH]; intros k.
  - term_case t.
  - step_cons. rewrite IH. now rewrite <- ?plus_n_Sm.
Qed.

Theorem default_if_empty_spec d (xs : list A) t :
  exec (op_default_if_empty d) (events xs t)
  = match xs, t with
    | [], TDone => [(1%nat, Next d); (1%nat, Done)]
    | _, _ => nexts (indexed 1 xs) ++ tterm (S (length xs)) t
    end.
Proof.
  unfold exec. cbn -[exec_from]. destruct xs as [|x r].
  - term_case t.
  - step_cons. rewrite default_if_empty_found. reflexivity.
Qed.

Theorem ignore_elements_spec (xs : list A) t :
  exec op_ignore_elements (events xs t) = tterm (S (length xs)) t.
Proof.
  unfold exec. cbn -[exec_from].
  assert (G : forall (xs : list A) k,
    exec_from op_ignore_elements tt k (events xs t) = tterm (k + length xs) t).
  { clear xs. induction xs as [|x r IH]; intros k.
    - term_case t.
    - step_cons. rewrite IH. now rewrite <- ?plus_n_Sm. }
  apply G.
Qed.

(* ---- take_last / skip_last / take_last_buffer ------------------------------- *)
Lemma q_push_is_take_last_push c q (x : A) : q_push c q x = take_last_push c q x.
Proof. reflexivity. Qed.

Lemma take_last_from c (xs : list A) t q k :
  exec_from (op_take_last c) q k (events xs t)
  = match t with
    | TDone => nexts (map (fun a => ((k + length xs)%nat, a)) (fold_left (take_last_push c) xs q))
               ++ [((k + length xs)%nat, Done)]
    | _ => tterm (k + length xs) t
    end.
Proof.
  revert q k; induction xs as [|x r IH]; intros q k.
  - destruct t as [|e|]; cbn; rewrite ?Nat.add_0_r; try reflexivity.
    unfold emit, nexts. now rewrite map_map.
  - step_cons. rewrite IH. rewrite <- ?plus_n_Sm. reflexivity.
Qed.

(* everything is emitted when the completion arrives: the last [c] elements *)
Theorem take_last_spec_m c (xs : list A) : 0 <= c ->
  exec (op_take_last c) (events xs TDone)
  = nexts (map (fun a => (S (length xs), a)) (skipn (length xs - Z.to_nat c) xs))
    ++ [(S (length xs), Done)].
Proof.
  intros Hc. unfold exec. cbn -[exec_from]. rewrite take_last_from.
  change (fold_left (take_last_push c) xs []) with (take_last c xs).
  now rewrite take_last_spec.
Qed.

Theorem take_last_error c (xs : list A) e :
  exec (op_take_last c) (events xs (TErr e)) = [(S (length xs), Err e)].
Proof. unfold exec. cbn -[exec_from]. now rewrite take_last_from. Qed.

Theorem take_last_buffer_spec c (xs : list A) : 0 <= c ->
  exec (op_take_last_buffer c) (events xs TDone)
  = [(S (length xs), Next (skipn (length xs - Z.to_nat c) xs)); (S (length xs), Done)].
Proof.
  intros Hc. unfold exec. cbn -[exec_from].
  assert (G : forall (xs : list A) q k,
    exec_from (op_take_last_buffer c) q k (events xs TDone)
    = [((k + length xs)%nat, Next (fold_left (take_last_push c) xs q)); ((k + length xs)%nat, Done)]).
  { clear xs. induction xs as [|x r IH]; intros q k.
    - cbn. now rewrite Nat.add_0_r.
    - step_cons. rewrite IH. now rewrite <- ?plus_n_Sm. }
  rewrite G. change (fold_left (take_last_push c) xs []) with (take_last c xs).
  now rewrite take_last_spec.
Qed.

(* ---- element_at ------------------------------------------------------------- *)
Lemma element_at_from i d exn (xs : list A) t i0 k : 0 <= i ->
  exec_from (op_element_at i0 d exn) i k (events xs t)
  = match nth_error xs (Z.to_nat i) with
    | Some x => [((k + Z.to_nat i)%nat, Next x); ((k + Z.to_nat i)%nat, Done)]
    | None => match t with
              | TDone => match d with
                         | Some dv => [((k + length xs)%nat, Next dv); ((k + length xs)%nat, Done)]
                         | None => [((k + length xs)%nat, Err exn)]
                         end
              | _ => tterm (k + length xs) t
              end
    end.
Proof.
  revert i k; induction xs as [|x r IH]; intros i k Hi.
  - destruct (Z.to_nat i); cbn [nth_error]; destruct t as [|e|]; cbn; rewrite ?Nat.add_0_r;
      try reflexivity; destruct d; reflexivity.
  - step_cons. destruct (Z.eqb_spec i 0) as [->|Hne]; cbn -[exec_from].
    + change (Z.to_nat 0) with 0%nat. cbn. now rewrite Nat.add_0_r.
    + rewrite IH by lia.
      replace (Z.to_nat i) with (S (Z.to_nat (i - 1))) by lia. cbn [nth_error].
      rewrite <- ?plus_n_Sm. reflexivity.
Qed.

Theorem element_at_spec i d exn (xs : list A) t : 0 <= i ->
  exec (op_element_at i d exn) (events xs t)
  = match nth_error xs (Z.to_nat i) with
    | Some x => [(S (Z.to_nat i), Next x); (S (Z.to_nat i), Done)]
    | None => match t with
              | TDone => match d with
                         | Some dv => [(S (length xs), Next dv); (S (length xs), Done)]
                         | None => [(S (length xs), Err exn)]
                         end
              | _ => tterm (S (length xs)) t
              end
    end.
Proof. intros Hi. unfold exec. cbn -[exec_from]. now rewrite element_at_from. Qed.

(* ---- materialize / dematerialize --------------------------------------------- *)
Theorem materialize_spec (xs : list A) t :
  exec op_materialize (events xs t)
  = nexts (indexed 1 (map Next xs)) ++
    match t with
    | TDone => [(S (length xs), Next Done); (S (length xs), Done)]
    | TErr e => [(S (length xs), Next (Err e)); (S (length xs), Done)]
    | TNever => []
    end.
Proof.
  unfold exec. cbn -[exec_from].
  assert (G : forall (xs : list A) k,
    exec_from op_materialize tt k (events xs t)
    = nexts (indexed k (map Next xs)) ++
      match t with
      | TDone => [((k + length xs)%nat, Next Done); ((k + length xs)%nat, Done)]
      | TErr e => [((k + length xs)%nat, Next (Err e)); ((k + length xs)%nat, Done)]
      | TNever => []
      end).
  { clear xs. induction xs as [|x r IH]; intros k.
    - term_case t.
    - step_cons. rewrite IH. rewrite <- ?plus_n_Sm. reflexivity. }
  apply G.
Qed.

(* dematerialize undoes materialize *)
Lemma untag_next_nexts {B} (l : list (nat * B)) : untag_next (nexts l) = map Next (map snd l).
Proof. unfold untag_next, nexts. rewrite !map_map. reflexivity. Qed.

Lemma demat_from (xs : list A) (tl : list (ev (ev A))) k :
  map snd (exec_from op_dematerialize tt k (map Next (map Next xs) ++ tl))
  = map Next xs ++ map snd (exec_from op_dematerialize tt (k + length xs) tl).
Proof.
  revert k; induction xs as [|x r IH]; intros k.
  - cbn. now rewrite Nat.add_0_r.
  - cbn [map app]. rewrite exec_from_cons. cbn -[exec_from].
    rewrite IH. now rewrite <- ?plus_n_Sm.
Qed.

Theorem dematerialize_materialize (xs : list A) t :
  untag (exec op_dematerialize (untag_next (exec op_materialize (events xs t))))
  = events xs t.
Proof.
  rewrite materialize_spec. unfold exec. cbn -[exec_from untag_next].
  unfold untag_next at 1. rewrite map_app. fold (untag_next (nexts (indexed 1 (map Next xs)))).
  rewrite untag_next_nexts, map_snd_indexed.
  rewrite demat_from.
  unfold events. f_equal. destruct t; reflexivity.
Qed.
End FactsA.

(* ---- distinct_until_changed / distinct / find / skip_last ------------------ *)
Section FactsMore.
Context {A K : Type}.

Definition pure_cmp (eqk : K -> K -> bool) : K -> K -> res bool := fun a b => Ok (eqk a b).

(* keep an element iff its key differs from the key of the previously KEPT
   element (the code compares with current_key, updated only on emission) *)
Fixpoint duc_list (key : A -> K) (eqk : K -> K -> bool) (cur : option K) (l : list (nat * A)) : list (nat * A) :=
  match l with
  | [] => []
  | (k, x) :: t =>
      match cur with
      | Some c => if eqk c (key x) then duc_list key eqk cur t
                  else (k, x) :: duc_list key eqk (Some (key x)) t
      | None => (k, x) :: duc_list key eqk (Some (key x)) t
      end
  end.

Lemma duc_from (key : A -> K) (eqk : K -> K -> bool) (xs : list A) t cur k :
  exec_from (op_distinct_until_changed (pure key) (pure_cmp eqk)) cur k (events xs t)
  = nexts (duc_list key eqk cur (indexed k xs)) ++ tterm (k + length xs) t.
Proof.
  revert cur k; induction xs as [|x r IH]; intros cur k.
  - term_case t.
  - step_cons. unfold pure, pure_cmp. destruct cur as [c|]; cbn -[exec_from].
    + destruct (eqk c (key x)); cbn -[exec_from]; rewrite IH; now rewrite <- ?plus_n_Sm.
    + rewrite IH. now rewrite <- ?plus_n_Sm.
Qed.

Theorem distinct_until_changed_spec (key : A -> K) (eqk : K -> K -> bool) (xs : list A) t :
  exec (op_distinct_until_changed (pure key) (pure_cmp eqk)) (events xs t)
  = nexts (duc_list key eqk None (indexed 1 xs)) ++ tterm (S (length xs)) t.
Proof. unfold exec. cbn -[exec_from]. apply duc_from. Qed.

(* distinct: keep an element iff its key equals no key kept so far (comparer
   called as comparer(stored, new), first match wins) *)
Fixpoint distinct_list (key : A -> K) (eqk : K -> K -> bool) (seen : list K) (l : list (nat * A)) : list (nat * A) :=
  match l with
  | [] => []
  | (k, x) :: t =>
      if existsb (fun s => eqk s (key x)) seen then distinct_list key eqk seen t
      else (k, x) :: distinct_list key eqk (seen ++ [key x]) t
  end.

Lemma hs_find_pure (eqk : K -> K -> bool) (seen : list K) (item : K) :
  hs_find (pure_cmp eqk) seen item = Ok (existsb (fun s => eqk s item) seen).
Proof.
  induction seen as [|a t IH]; [reflexivity|]. cbn [hs_find existsb]. unfold pure_cmp at 1.
  destruct (eqk a item); [reflexivity|exact IH].
Qed.

Lemma distinct_from (key : A -> K) (eqk : K -> K -> bool) (xs : list A) t seen k :
  exec_from (op_distinct (pure key) (pure_cmp eqk)) seen k (events xs t)
  = nexts (distinct_list key eqk seen (indexed k xs)) ++ tterm (k + length xs) t.
Proof.
  revert seen k; induction xs as [|x r IH]; intros seen k.
  - term_case t.
  - step_cons. unfold pure at 1. rewrite hs_find_pure.
    destruct (existsb (fun s => eqk s (key x)) seen); cbn -[exec_from]; rewrite IH;
      now rewrite <- ?plus_n_Sm.
Qed.

Theorem distinct_spec (key : A -> K) (eqk : K -> K -> bool) (xs : list A) t :
  exec (op_distinct (pure key) (pure_cmp eqk)) (events xs t)
  = nexts (distinct_list key eqk [] (indexed 1 xs)) ++ tterm (S (length xs)) t.
Proof. unfold exec. cbn -[exec_from]. apply distinct_from. Qed.
End FactsMore.

Section FactsFind.
Context {A : Type}.

(* find / find_index: the first element (with its index) satisfying the
   predicate, emitted when it arrives; the "not found" value at completion *)
Fixpoint first_match (p : A -> nat -> bool) (i : nat) (l : list (nat * A)) : option (nat * nat * A) :=
  match l with
  | [] => None
  | (k, x) :: t => if p x i then Some (k, i, x) else first_match p (S i) t
  end.

Lemma find_from (p : A -> nat -> bool) yi (xs : list A) t i k :
  exec_from (op_find (pure2 p) yi) i k (events xs t)
  = match first_match p i (indexed k xs) with
    | Some (j, idx, x) =>
        [(j, Next (if yi then inr (Z.of_nat idx) else inl (Some x))); (j, Done)]
    | None => match t with
              | TDone => [((k + length xs)%nat, Next (if yi then inr (-1) else inl None));
                          ((k + length xs)%nat, Done)]
              | _ => tterm (k + length xs) t
              end
    end.
Proof.
  revert i k; induction xs as [|x r IH]; intros i k.
  - destruct t; cbn; rewrite ?Nat.add_0_r; reflexivity.
  - step_cons. unfold pure2. destruct (p x i); cbn -[exec_from].
    + reflexivity.
    + rewrite IH. rewrite <- ?plus_n_Sm. reflexivity.
Qed.

Theorem find_spec (p : A -> nat -> bool) yi (xs : list A) t :
  exec (op_find (pure2 p) yi) (events xs t)
  = match first_match p 0 (indexed 1 xs) with
    | Some (j, idx, x) =>
        [(j, Next (if yi then inr (Z.of_nat idx) else inl (Some x))); (j, Done)]
    | None => match t with
              | TDone => [(S (length xs), Next (if yi then inr (-1) else inl None)); (S (length xs), Done)]
              | _ => tterm (S (length xs)) t
              end
    end.
Proof. unfold exec. cbn -[exec_from]. apply find_from. Qed.

(* skip_last: element j is emitted when element j + c arrives *)
Lemma skip_last_from (c : nat) (xs : list A) t : forall (q : list A) k,
  length q = c ->
  exec_from (op_skip_last (Z.of_nat c)) q k (events xs t)
  = nexts (combine (seq k (length xs)) (firstn (length xs) (q ++ xs))) ++ tterm (k + length xs) t.
Proof.
  induction xs as [|x r IH]; intros q k Hq.
  - term_case t.
  - step_cons. unfold zlen. rewrite app_length. cbn [length].
    destruct (Z.gtb_spec (Z.of_nat (length q + 1)) (Z.of_nat c)) as [_|H]; [|lia].
    destruct q as [|y q'].
    + (* c = 0: the element itself is emitted *)
      cbn [app tl firstn]. cbn -[exec_from]. rewrite IH by (cbn in *; lia).
      cbn [length seq combine app firstn]. rewrite <- ?plus_n_Sm. reflexivity.
    + cbn [app tl firstn]. cbn -[exec_from]. rewrite IH by (rewrite app_length; cbn in *; lia).
      cbn [length seq combine app firstn]. rewrite <- app_assoc. cbn [app].
      rewrite <- ?plus_n_Sm. reflexivity.
Qed.

Lemma skip_last_fill (c : nat) (xs : list A) t : forall (q : list A) k,
  (length q + length xs <= c)%nat ->
  exec_from (op_skip_last (Z.of_nat c)) q k (events xs t) = tterm (k + length xs) t.
Proof.
  induction xs as [|x r IH]; intros q k Hq.
  - term_case t.
  - step_cons. unfold zlen. rewrite app_length. cbn [length] in *.
    destruct (Z.gtb_spec (Z.of_nat (length q + 1)) (Z.of_nat c)) as [H|_]; [lia|].
    cbn -[exec_from]. rewrite IH by (rewrite app_length; cbn; lia).
    rewrite <- ?plus_n_Sm. reflexivity.
Qed.

(* the first c inputs only fill the queue; from then on input j+c releases element j *)
Theorem skip_last_spec_m (c : nat) (xs : list A) t :
  exec (op_skip_last (Z.of_nat c)) (events xs t)
  = nexts (combine (seq (1 + c) (length xs - c)) (firstn (length xs - c) xs))
    ++ tterm (S (length xs)) t.
Proof.
  unfold exec. cbn -[exec_from].
  destruct (Nat.le_gt_cases (length xs) c) as [Hle|Hgt].
  - rewrite skip_last_fill by (cbn; lia). replace (length xs - c)%nat with 0%nat by lia. reflexivity.
  - (* split xs into the first c elements (fill) and the rest *)
    rewrite <- (firstn_skipn c xs) at 1. unfold events. rewrite map_app, <- app_assoc.
    fold (events (skipn c xs) t).
    assert (Fill : forall (pre : list A) (q : list A) k rest,
      (length q + length pre <= c)%nat ->
      exec_from (op_skip_last (Z.of_nat c)) q k (map Next pre ++ rest)
      = exec_from (op_skip_last (Z.of_nat c)) (q ++ pre) (k + length pre) rest).
    { induction pre as [|y pre IHp]; intros q k rest Hq.
      - cbn. now rewrite app_nil_r, Nat.add_0_r.
      - cbn [map app]. rewrite exec_from_cons. cbn -[exec_from]. unfold zlen. rewrite app_length. cbn [length] in *.
        destruct (Z.gtb_spec (Z.of_nat (length q + 1)) (Z.of_nat c)) as [H|_]; [lia|].
        cbn -[exec_from]. rewrite IHp by (rewrite app_length; cbn; lia).
        rewrite <- app_assoc. cbn [app]. rewrite <- ?plus_n_Sm. reflexivity. }
    rewrite Fill by (cbn; rewrite firstn_length; lia). cbn [app].
    rewrite firstn_length, Nat.min_l by lia.
    rewrite skip_last_from by (rewrite firstn_length; lia).
    rewrite skipn_length. rewrite (firstn_skipn c xs).
    replace (1 + c + (length xs - c))%nat with (S (length xs)) by lia. reflexivity.
Qed.
End FactsFind.
