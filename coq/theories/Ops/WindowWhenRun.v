(* C18: window_when / buffer_when (closing selector) at run level.  Over ALL interleavings of the
   notifications of the source (port 0) and of the closing observables the closing mapper makes
   (port g+1 for the observable made for window g), the run of [x_window_when] / [x_buffer_when]
   (Ops/Windows.v, operators/_window.py, _buffer.py) with every window subscribed when handed
   equals a walk whose whole state is the index g of the current window (and, for buffers, its
   content):
     - a source element goes to window g;
     - ONLY the closing observable of window g (port g+1) is listened to: its first notification,
       an element or its completion, completes window g, hands window g+1, disposes that closing
       subscription and subscribes a NEW closing observable, made by the (g+1)-th call of the mapper;
     - an error of the source or of the current closing observable goes to window g and to the outer;
       the source's completion completes window g and the outer;
     - a raising closing mapper ends everything: the CURRENT window (window 0 at the first call,
       inside subscribe(); the window just handed at a later call) gets the error, then the outer
       sequence; every earlier window has completed, so the source is released and nothing that
       comes later on any port is observed; buffers: the result's error, all disposed.
   Property-level readings follow. *)
From RxVerif Require Import Base.Prelude Ops.Machine Ops.MachineFacts Ops.MultiWin Ops.MultiWinFacts
  Ops.Windows Ops.WindowCountFacts Ops.WinSim.
From Coq Require Import Sorting.Sorted.

Local Arguments Multi.mem : simpl never.
Local Arguments Multi.remove : simpl never.
Local Arguments Multi.sort_nat : simpl never.

Lemma mem_cons k j l : mem k (j :: l) = Nat.eqb k j || mem k l.
Proof. reflexivity. Qed.
Lemma mem_nil' k : mem k [] = false.
Proof. reflexivity. Qed.
Lemma remove_cons' k j (t : list nat) : remove k (j :: t) = if Nat.eqb k j then t else j :: remove k t.
Proof. reflexivity. Qed.
Lemma remove_nil' k : remove k [] = [].
Proof. reflexivity. Qed.
Lemma sort_two g : Multi.sort_nat [0%nat; S g] = [0%nat; S g].
Proof. reflexivity. Qed.
Lemma sort_one g : Multi.sort_nat [g] = [g].
Proof. reflexivity. Qed.

Section WindowWhen.
Context {A B : Type}.
Variable mapper : nat -> res unit.
Notation M := (x_window_when (A:=A) (B:=B) mapper).
Notation tin := (Z * nat * ev A)%type.

Definition out_ev (e : ev A) : ev B := match e with Err z => Err z | _ => Done end.

(* [g] = the current window (every earlier one has completed) *)
Fixpoint ww_walk (g : nat) (pos : nat) (ins : list tin) : list (nat * obs A B) :=
  match ins with
  | [] => []
  | (_, k, e) :: rest =>
      if Nat.eqb k 0 then
        match e with
        | Next x => (pos, OWin g (Next x)) :: ww_walk g (S pos) rest
        | _ => [(pos, OWin g e); (pos, OEmit (out_ev e)); (pos, OUnsub 0%nat); (pos, OUnsub (S g))]
        end
      else if Nat.eqb k (S g) then
        match e with
        | Err z => [(pos, OWin g (Err z)); (pos, OEmit (Err z)); (pos, OUnsub 0%nat); (pos, OUnsub (S g))]
        | _ =>
            [(pos, OWin g Done); (pos, OHand (S g) 0); (pos, OUnsub (S g))]
            ++ match mapper (S g) with
               | Ok _ => (pos, OSub (S (S g))) :: ww_walk (S g) (S pos) rest
               | Raise z => [(pos, OWin (S g) (Err z)); (pos, OEmit (Err z)); (pos, OUnsub 0%nat)]
               end
        end
      else ww_walk g (S pos) rest
  end.

(* inside subscribe(): window 0 handed, the source subscribed, the first call of the mapper *)
Definition ww_start : list (nat * obs A B) :=
  [(0%nat, OHand 0%nat 0); (0%nat, OSub 0%nat)]
  ++ match mapper 0%nat with
     | Ok _ => [(0%nat, OSub 1%nat)]
     | Raise z => [(0%nat, OWin 0%nat (Err z)); (0%nat, OEmit (Err z)); (0%nat, OUnsub 0%nat)]
     end.

(* the whole trace: when the FIRST call raises nothing is listened to any more *)
Definition ww_out (ins : list tin) : list (nat * obs A B) :=
  ww_start ++ match mapper 0%nat with Ok _ => ww_walk 0 1 ins | Raise _ => [] end.

Definition ww_rstate (g : nat) : rstate A :=
  RState [0%nat; S g] [] true [g] (map (fun k => (k, Done)) (seq 0 g)) (seq 0 (S g)) false.

Definition ww_ok (s : ww_st) (g : nat) : Prop := ww_cur s = g /\ ww_next s = S g /\ ww_calls s = S g.

Lemma wterm_fresh g : wterm_of (W:=A) g (map (fun k => (k, Done)) (seq 0 g)) = None.
Proof. rewrite wterm_done_seq, Nat.ltb_irrefl. reflexivity. Qed.
Lemma wterm_fresh_S g e : wterm_of (W:=A) (S g) (map (fun k => (k, Done)) (seq 0 g) ++ [(g, e)]) = None.
Proof.
  rewrite wterm_of_app, wterm_done_seq. destruct (Nat.ltb_spec (S g) g); [lia|]. cbn [wterm_of].
  destruct (Nat.eqb_spec (S g) g); [lia|reflexivity].
Qed.
Lemma count_one g : count_of g [g] = 1%nat.
Proof. unfold count_of. cbn [filter]. now rewrite Nat.eqb_refl. Qed.
Lemma mem_seq_S g : mem (S g) (seq 0 (S g) ++ [S g]) = true.
Proof.
  change [S g] with (seq (0 + S g) 1). rewrite <- seq_app, mem_seq.
  destruct (Nat.leb_spec 0 (S g)), (Nat.ltb_spec (S g) (0 + (S g + 1))); try lia; reflexivity.
Qed.

Ltac rs := cbn [r_live r_timers r_outer r_wsubs r_wterm r_handed r_released fst snd app apply_cmds apply_cmd
                finish is_terminal all_imm negb andb orb repeat filter].

Lemma ww_run_from : forall (ins : list tin) s g pos, ww_ok s g ->
  fst (run_from all_imm M s (ww_rstate g) pos (wports ins)) = ww_walk g pos ins.
Proof.
  induction ins as [|[[t k] e] rest IH]; intros s g pos Hs; [reflexivity|].
  destruct s as [cur nx calls cl]. destruct Hs as (Hc & Hn & Hk). cbn [ww_cur ww_next ww_calls] in *. subst cur nx calls.
  rewrite wports_cons, run_from_cons. cbn [ww_walk].
  assert (Edead : forall s' (r : rstate A) o, r_live r = [] ->
            map (fun x => (pos, x)) o ++ fst (run_from all_imm M s' r (S pos) (wports rest)) = map (fun x => (pos, x)) o).
  { intros s' r o Hr. rewrite (run_from_deaf all_imm M rest s' r (S pos) Hr). apply app_nil_r. }
  destruct k as [|j].
  - (* the source *)
    cbn [Nat.eqb]. unfold rstep, ww_rstate.
    assert (Em : mem 0 [0%nat; S g] = true) by reflexivity.
    cbn [r_live]. rewrite Em. unfold deliver.
    destruct e as [x|z|]; cbn [x_step x_window_when ww_cur]; rs; rewrite wterm_fresh, count_one; rs.
    + cbn [map app]. f_equal. apply (IH _ g (S pos)). repeat split.
    + rewrite Nat.eqb_refl. cbn [negb]. unfold maybe_release, end_outer. rs.
      unfold maybe_release; rs; rewrite ?sort_two; rewrite ?mem_nil'; cbn [map app andb fst snd];
        rewrite Edead by reflexivity; reflexivity.
    + rewrite Nat.eqb_refl. cbn [negb]. unfold maybe_release, end_outer. rs.
      unfold maybe_release; rs; rewrite ?sort_two; rewrite ?mem_nil'; cbn [map app andb fst snd];
        rewrite Edead by reflexivity; reflexivity.
  - cbn [Nat.eqb]. unfold rstep, ww_rstate. cbn [r_live].
    rewrite !mem_cons, mem_nil'. cbn [Nat.eqb orb]. rewrite Bool.orb_false_r.
    destruct (Nat.eqb_spec j g) as [->|Hne].
    2: { cbn [fst snd map app]. apply (IH _ g (S pos)). repeat split. }
    unfold deliver.
    assert (Fire : forall e', (forall z, e' <> Err z) ->
       map (fun x => (pos, x)) (snd (let '(s', cs, f) := x_step M (WwSt g (S g) (S g) cl) t (ISrc (S g) e') in
          let '(r1, o1) := apply_cmds all_imm (RState [0%nat; S g] [] true [g] (map (fun k => (k, Done)) (seq 0 g)) (seq 0 (S g)) false) cs in
          let '(r2, o2) := finish r1 f in
          let '(r3, o3) := if is_terminal e' && mem (S g) (r_live r2)
                           then (RState (remove (S g) (r_live r2)) (r_timers r2) (r_outer r2) (r_wsubs r2) (r_wterm r2) (r_handed r2) (r_released r2), [OUnsub (S g)])
                           else (r2, []) in (s', r3, o1 ++ o2 ++ o3)))
       ++ fst (run_from all_imm M
                 (fst (fst (let '(s', cs, f) := x_step M (WwSt g (S g) (S g) cl) t (ISrc (S g) e') in
          let '(r1, o1) := apply_cmds all_imm (RState [0%nat; S g] [] true [g] (map (fun k => (k, Done)) (seq 0 g)) (seq 0 (S g)) false) cs in
          let '(r2, o2) := finish r1 f in
          let '(r3, o3) := if is_terminal e' && mem (S g) (r_live r2)
                           then (RState (remove (S g) (r_live r2)) (r_timers r2) (r_outer r2) (r_wsubs r2) (r_wterm r2) (r_handed r2) (r_released r2), [OUnsub (S g)])
                           else (r2, []) in (s', r3, o1 ++ o2 ++ o3))))
                 (snd (fst (let '(s', cs, f) := x_step M (WwSt g (S g) (S g) cl) t (ISrc (S g) e') in
          let '(r1, o1) := apply_cmds all_imm (RState [0%nat; S g] [] true [g] (map (fun k => (k, Done)) (seq 0 g)) (seq 0 (S g)) false) cs in
          let '(r2, o2) := finish r1 f in
          let '(r3, o3) := if is_terminal e' && mem (S g) (r_live r2)
                           then (RState (remove (S g) (r_live r2)) (r_timers r2) (r_outer r2) (r_wsubs r2) (r_wterm r2) (r_handed r2) (r_released r2), [OUnsub (S g)])
                           else (r2, []) in (s', r3, o1 ++ o2 ++ o3))))
                 (S pos) (wports rest))
       = [(pos, OWin g Done); (pos, OHand (S g) 0); (pos, OUnsub (S g))]
         ++ match mapper (S g) with
            | Ok _ => (pos, OSub (S (S g))) :: ww_walk (S g) (S pos) rest
            | Raise z => [(pos, OWin (S g) (Err z)); (pos, OEmit (Err z)); (pos, OUnsub 0%nat)]
            end).
    { intros e' He'.
      assert (Ex : x_step M (WwSt g (S g) (S g) cl) t (ISrc (S g) e')
                   = (let '(s', c, f) := ww_arm (A:=A) (B:=B) true mapper (WwSt (S g) (S (S g)) (S g) cl) in
                      (s', [CWin g Done; CHand (S g) 0; CUnsub (S g)] ++ c, f))).
      { destruct e' as [x|z|]; [reflexivity|exfalso; exact (He' z eq_refl)|reflexivity]. }
      rewrite Ex. unfold ww_arm. cbn [ww_calls ww_cur ww_next ww_closing].
      destruct (mapper (S g)) as [u|z]; rs; rewrite wterm_fresh, count_one; rs; rewrite Nat.eqb_refl; cbn [negb];
        unfold maybe_release; rs; unfold sub_win; rs; rewrite wterm_fresh_S, mem_seq_S; rs;
        rewrite !mem_cons, mem_nil'; cbn [Nat.eqb orb]; rewrite Nat.eqb_refl; cbn [orb];
        rewrite !remove_cons'; cbn [Nat.eqb]; rewrite Nat.eqb_refl.
      - (* a new closing observable *)
        rs. assert (Emem : mem (S g) [0%nat; S (S g)] = false).
        { rewrite !mem_cons, mem_nil'. cbn [Nat.eqb orb]. destruct (Nat.eqb_spec g (S g)); [lia|reflexivity]. }
        rewrite Emem, Bool.andb_false_r. cbn [fst snd map app]. do 4 f_equal.
        assert (Er : RState [0%nat; S (S g)] [] true [S g] (map (fun k => (k, Done)) (seq 0 g) ++ [(g, Done)])
                       (seq 0 (S g) ++ [S g]) false = ww_rstate (S g)).
        { unfold ww_rstate.
          assert (E1 : map (fun k => (k, @Done A)) (seq 0 (S g)) = map (fun k => (k, Done)) (seq 0 g) ++ [(g, Done)])
            by (rewrite seq_S, map_app; reflexivity).
          assert (E2 : seq 0 (S (S g)) = seq 0 (S g) ++ [S g]) by (rewrite (seq_S (S g) 0); reflexivity).
          rewrite E1, E2. reflexivity. }
        rewrite Er. apply (IH _ (S g) (S pos)). repeat split.
      - (* the closing mapper raises: the window just handed gets the error, then the outer; the source is released *)
        rs. rewrite wterm_fresh_S, count_one. rs. rewrite Nat.eqb_refl. cbn [negb filter]. unfold maybe_release, end_outer. rs. unfold maybe_release. rs. rewrite ?sort_one, ?mem_nil'. rewrite Bool.andb_false_r. cbn [map app andb fst snd].
        rewrite Edead by reflexivity. reflexivity. }
    destruct e as [x|z|].
    + apply Fire. discriminate.
    + cbn [x_step x_window_when ww_cur]. rs. rewrite wterm_fresh, count_one. rs. rewrite Nat.eqb_refl. cbn [negb].
      unfold maybe_release, end_outer. rs. unfold maybe_release. rs. rewrite sort_two, mem_nil'. cbn [map app andb fst snd].
      rewrite Edead by reflexivity. reflexivity.
    + apply Fire. discriminate.
Qed.

(* THEOREM: the whole trace, for every interleaving of the ports *)
Theorem window_when_run (ins : list tin) : fst (run all_imm M (wports ins)) = ww_out ins.
Proof.
  rewrite run_unfold. cbn [fst]. unfold ww_out, ww_start, start_obs, start_state.
  cbn [x_start x_window_when]. unfold ww_arm. cbn [ww_calls ww_cur ww_next ww_closing].
  destruct (mapper 0%nat) as [u|z]; unfold rstate0; rs; unfold sub_win; rs; cbn [wterm_of]; rewrite mem_cons, mem_nil'; cbn [Nat.eqb orb]; rs.
  - cbn [map app]. do 3 f_equal. apply (ww_run_from ins _ 0 1). repeat split.
  - cbn [wterm_of]. rewrite count_one. rs. cbn [Nat.eqb negb filter]. unfold end_outer, maybe_release. rs.
    unfold maybe_release. rs. rewrite sort_one. cbn [map app].
    rewrite run_from_deaf by reflexivity. reflexivity.
Qed.
End WindowWhen.

(* ------------------------------------------------------------ buffer_when -- *)
Section BufferWhen.
Context {A : Type}.
Variable mapper : nat -> res unit.
Notation MB := (x_buffer_when (A:=A) mapper).
Notation tin := (Z * nat * ev A)%type.

(* [c]: what the current buffer holds *)
Fixpoint bw_walk (g : nat) (c : list A) (pos : nat) (ins : list tin) : list (nat * obs A (list A)) :=
  match ins with
  | [] => []
  | (_, k, e) :: rest =>
      if Nat.eqb k 0 then
        match e with
        | Next x => bw_walk g (c ++ [x]) (S pos) rest
        | Err z => [(pos, OEmit (Err z)); (pos, OUnsub 0%nat); (pos, OUnsub (S g))]
        | Done => [(pos, OEmit (Next c)); (pos, OEmit Done); (pos, OUnsub 0%nat); (pos, OUnsub (S g))]
        end
      else if Nat.eqb k (S g) then
        match e with
        | Err z => [(pos, OEmit (Err z)); (pos, OUnsub 0%nat); (pos, OUnsub (S g))]
        | _ =>
            [(pos, OEmit (Next c)); (pos, OUnsub (S g))]
            ++ match mapper (S g) with
               | Ok _ => (pos, OSub (S (S g))) :: bw_walk (S g) [] (S pos) rest
               | Raise z => [(pos, OEmit (Err z)); (pos, OUnsub 0%nat)]
               end
        end
      else bw_walk g c (S pos) rest
  end.

Definition bw_rstate (g : nat) : rstate A := RState [0%nat; S g] [] true [] [] [] false.

Ltac rs := cbn [r_live r_timers r_outer r_wsubs r_wterm r_handed r_released fst snd app apply_cmds apply_cmd
                finish is_terminal all_imm negb andb orb repeat filter].

Lemma bw_run_from : forall (ins : list tin) s g c pos, ww_ok s g ->
  fst (run_from all_imm MB (BufSt s [(g, c)] false) (bw_rstate g) pos (wports ins)) = bw_walk g c pos ins.
Proof.
  induction ins as [|[[t k] e] rest IH]; intros s g c pos Hs; [reflexivity|].
  destruct s as [cur nx calls cl]. destruct Hs as (Hc & Hn & Hk). cbn [ww_cur ww_next ww_calls] in *. subst cur nx calls.
  rewrite wports_cons, run_from_cons. cbn [bw_walk].
  assert (Edead : forall s' (r : rstate A) o, r_live r = [] ->
            map (fun x => (pos, x)) o ++ fst (run_from all_imm MB s' r (S pos) (wports rest)) = map (fun x => (pos, x)) o).
  { intros s' r o Hr. rewrite (run_from_deaf all_imm MB rest s' r (S pos) Hr). apply app_nil_r. }
  unfold rstep, bw_rstate. cbn [r_live]. rewrite !mem_cons, mem_nil'.
  destruct k as [|j]; cbn [Nat.eqb orb].
  - (* the source *)
    unfold deliver, x_buffer_when, buffered. cbn [x_step b_inner b_open b_outer_done x_window_when ww_cur].
    destruct e as [x|z|]; cbn [buf_cmds buf_add buf_get buf_del]; rewrite Nat.eqb_refl; cbn [andb orb buf_finish]; rs.
    + cbn [map app]. apply (IH _ g (c ++ [x]) (S pos)). repeat split.
    + unfold end_outer, maybe_release. rs. rewrite sort_two, mem_nil'. cbn [map app andb fst snd].
      rewrite Edead by reflexivity. reflexivity.
    + unfold end_outer, maybe_release. rs. rewrite sort_two, mem_nil'. cbn [map app andb fst snd].
      rewrite Edead by reflexivity. reflexivity.
  - rewrite Bool.orb_false_r. destruct (Nat.eqb_spec j g) as [->|Hne].
    2: { cbn [fst snd map app]. apply (IH _ g c (S pos)). repeat split. }
    unfold deliver, x_buffer_when, buffered. cbn [b_inner b_open b_outer_done].
    assert (Ex : forall e', (forall z, e' <> Err z) ->
              x_step (x_window_when (A:=A) (B:=unit) mapper) (WwSt g (S g) (S g) cl) t (ISrc (S g) e')
              = (let '(s', c0, f) := ww_arm (A:=A) (B:=unit) true mapper (WwSt (S g) (S (S g)) (S g) cl) in
                 (s', [CWin g Done; CHand (S g) 0; CUnsub (S g)] ++ c0, f))).
    { intros e' He'. destruct e' as [x|z|]; [reflexivity|exfalso; exact (He' z eq_refl)|reflexivity]. }
    assert (Fire : forall e', (forall z, e' <> Err z) ->
       map (fun x => (pos, x)) (snd (let '(s', cs, f) :=
             (let '(s', cs, f) := x_step (x_window_when (A:=A) (B:=unit) mapper) (WwSt g (S g) (S g) cl) t (ISrc (S g) e') in
              let '(open, out, f1) := buf_cmds true [(g, c)] false cs in
              let '(od, f2) := buf_finish open false f1 f in (BufSt s' open od, out, f2)) in
          let '(r1, o1) := apply_cmds all_imm (RState [0%nat; S g] [] true [] [] [] false) cs in
          let '(r2, o2) := finish r1 f in
          let '(r3, o3) := if is_terminal e' && mem (S g) (r_live r2)
                           then (RState (remove (S g) (r_live r2)) (r_timers r2) (r_outer r2) (r_wsubs r2) (r_wterm r2) (r_handed r2) (r_released r2), [OUnsub (S g)])
                           else (r2, []) in (s', r3, o1 ++ o2 ++ o3)))
       ++ fst (run_from all_imm MB
                 (fst (fst (let '(s', cs, f) :=
             (let '(s', cs, f) := x_step (x_window_when (A:=A) (B:=unit) mapper) (WwSt g (S g) (S g) cl) t (ISrc (S g) e') in
              let '(open, out, f1) := buf_cmds true [(g, c)] false cs in
              let '(od, f2) := buf_finish open false f1 f in (BufSt s' open od, out, f2)) in
          let '(r1, o1) := apply_cmds all_imm (RState [0%nat; S g] [] true [] [] [] false) cs in
          let '(r2, o2) := finish r1 f in
          let '(r3, o3) := if is_terminal e' && mem (S g) (r_live r2)
                           then (RState (remove (S g) (r_live r2)) (r_timers r2) (r_outer r2) (r_wsubs r2) (r_wterm r2) (r_handed r2) (r_released r2), [OUnsub (S g)])
                           else (r2, []) in (s', r3, o1 ++ o2 ++ o3))))
                 (snd (fst (let '(s', cs, f) :=
             (let '(s', cs, f) := x_step (x_window_when (A:=A) (B:=unit) mapper) (WwSt g (S g) (S g) cl) t (ISrc (S g) e') in
              let '(open, out, f1) := buf_cmds true [(g, c)] false cs in
              let '(od, f2) := buf_finish open false f1 f in (BufSt s' open od, out, f2)) in
          let '(r1, o1) := apply_cmds all_imm (RState [0%nat; S g] [] true [] [] [] false) cs in
          let '(r2, o2) := finish r1 f in
          let '(r3, o3) := if is_terminal e' && mem (S g) (r_live r2)
                           then (RState (remove (S g) (r_live r2)) (r_timers r2) (r_outer r2) (r_wsubs r2) (r_wterm r2) (r_handed r2) (r_released r2), [OUnsub (S g)])
                           else (r2, []) in (s', r3, o1 ++ o2 ++ o3))))
                 (S pos) (wports rest))
       = [(pos, OEmit (Next c)); (pos, OUnsub (S g))]
         ++ match mapper (S g) with
            | Ok _ => (pos, OSub (S (S g))) :: bw_walk (S g) [] (S pos) rest
            | Raise z => [(pos, OEmit (Err z)); (pos, OUnsub 0%nat)]
            end).
    { intros e' He'. rewrite (Ex e' He'). unfold ww_arm. cbn [ww_calls ww_cur ww_next ww_closing].
      destruct (mapper (S g)) as [u|z]; cbn [app buf_cmds buf_get buf_del]; rewrite !Nat.eqb_refl;
        cbn [app buf_cmds buf_get buf_del]; rewrite ?Nat.eqb_refl;
        cbn [andb orb buf_finish app]; rs;
        rewrite !mem_cons, mem_nil'; cbn [Nat.eqb orb]; rewrite ?Nat.eqb_refl; cbn [orb];
        rewrite !remove_cons'; cbn [Nat.eqb]; rewrite ?Nat.eqb_refl.
      - rs. assert (Emem : mem (S g) [0%nat; S (S g)] = false).
        { rewrite !mem_cons, mem_nil'. cbn [Nat.eqb orb]. destruct (Nat.eqb_spec g (S g)); [lia|reflexivity]. }
        rewrite Emem, Bool.andb_false_r. cbn [fst snd map app]. do 3 f_equal.
        apply (IH _ (S g) [] (S pos)). repeat split.
      - unfold end_outer, maybe_release. rs. rewrite sort_one, mem_nil', Bool.andb_false_r. cbn [fst snd map app].
        rewrite app_nil_r. apply f_equal.
        match goal with |- context [run_from all_imm MB ?s' ?r' (S pos) (wports rest)] =>
          rewrite (run_from_deaf all_imm MB rest s' r' (S pos) eq_refl) end. reflexivity. }
    destruct e as [x|z|].
    + apply Fire. discriminate.
    + cbn [x_step x_window_when ww_cur buf_cmds buf_get b_inner b_open b_outer_done]. rewrite Nat.eqb_refl. cbn [buf_finish]. rs.
      unfold end_outer, maybe_release. rs. rewrite sort_two, mem_nil'. cbn [map app andb fst snd].
      rewrite Edead by reflexivity. reflexivity.
    + apply Fire. discriminate.
Qed.

Definition bw_out (ins : list tin) : list (nat * obs A (list A)) :=
  match mapper 0%nat with
  | Ok _ => [(0%nat, OSub 0%nat); (0%nat, OSub 1%nat)] ++ bw_walk 0 [] 1 ins
  | Raise z => [(0%nat, OSub 0%nat); (0%nat, OEmit (Err z)); (0%nat, OUnsub 0%nat)]
  end.

(* THEOREM: the whole trace, for every interleaving of the ports *)
Theorem buffer_when_run (ins : list tin) : fst (run all_imm MB (wports ins)) = bw_out ins.
Proof.
  rewrite run_unfold. cbn [fst]. unfold bw_out, start_obs, start_state, x_buffer_when, buffered.
  cbn [x_start x_window_when]. unfold ww_arm. cbn [ww_calls ww_cur ww_next ww_closing].
  destruct (mapper 0%nat) as [u|z]; cbn [app buf_cmds buf_get buf_finish Nat.eqb]; unfold rstate0; rs.
  - cbn [map app]. do 2 f_equal. apply (bw_run_from ins _ 0 [] 1). repeat split.
  - unfold end_outer, maybe_release. rs. rewrite sort_one. cbn [map app].
    rewrite run_from_deaf by reflexivity. reflexivity.
Qed.
End BufferWhen.

(* ------------------------------------------------------------- readings -- *)
(* the elements of the source (port 0), in order *)
Definition src_nexts {A} (ins : list (Z * nat * ev A)) : list A :=
  flat_map (fun i => match i with (_, O, Next x) => [x] | _ => [] end) ins.
(* (window, element) for every element delivered on a window, in trace order *)
Definition routed {A B} (tr : list (nat * obs A B)) : list (nat * A) :=
  flat_map (fun x => match snd x with OWin g (Next v) => [(g, v)] | _ => [] end) tr.
(* no error notification on any port / no completion of the source *)
Definition no_err {A} (ins : list (Z * nat * ev A)) : Prop := forall t k z, ~ In (t, k, Err z) ins.
Definition src_open {A} (ins : list (Z * nat * ev A)) : Prop := forall t, ~ In (t, 0%nat, Done) ins.

Lemma routed_app {A B} (a b : list (nat * obs A B)) : routed (a ++ b) = routed a ++ routed b.
Proof. unfold routed. apply flat_map_app. Qed.

Lemma no_err_tail {A} (i : Z * nat * ev A) l : no_err (i :: l) -> no_err l.
Proof. intros H t k z Hi. apply (H t k z). right. exact Hi. Qed.
Lemma src_open_tail {A} (i : Z * nat * ev A) l : src_open (i :: l) -> src_open l.
Proof. intros H t Hi. apply (H t). right. exact Hi. Qed.

Section WhenReadings.
Context {A B : Type}.
Variable mapper : nat -> res unit.
Notation tin := (Z * nat * ev A)%type.

(* windows partition the source: the elements delivered on windows are, in trace order, a prefix
   of the source's elements (nothing invented, duplicated or reordered; each element goes to ONE
   window), and the window index never decreases along the trace *)
Lemma ww_walk_partition : forall (ins : list tin) g pos,
  (exists rest, src_nexts ins = map snd (routed (ww_walk (B:=B) mapper g pos ins)) ++ rest)
  /\ Forall (fun gv => (g <= fst gv)%nat) (routed (ww_walk (B:=B) mapper g pos ins))
  /\ StronglySorted (fun p q => (fst p <= fst q)%nat) (routed (ww_walk (B:=B) mapper g pos ins)).
Proof.
  induction ins as [|[[t k] e] rest IH]; intros g pos.
  - cbn. repeat split; [exists []; reflexivity|constructor|constructor].
  - cbn [ww_walk]. destruct k as [|j]; cbn [Nat.eqb].
    + destruct e as [x|z|].
      * destruct (IH g (S pos)) as ((r & Hr) & Hf & Hs). cbn [routed flat_map snd app]. fold (routed (ww_walk (B:=B) mapper g (S pos) rest)).
        repeat split.
        -- exists r. cbn [src_nexts flat_map app map snd]. fold (src_nexts rest). now rewrite Hr.
        -- constructor; [cbn; lia|exact Hf].
        -- constructor; [exact Hs|]. eapply Forall_impl; [|exact Hf]. cbn. auto.
      * repeat split; [exists (src_nexts rest); reflexivity|constructor|constructor].
      * repeat split; [exists (src_nexts rest); reflexivity|constructor|constructor].
    + destruct (Nat.eqb j g) eqn:Ek.
      2: { destruct (IH g (S pos)) as ((r & Hr) & Hf & Hs). repeat split; [exists r; exact Hr|exact Hf|exact Hs]. }
      assert (Fire : (exists r, src_nexts ((t, S j, e) :: rest) = map snd (routed (ww_walk (B:=B) mapper (S g) (S pos) rest)) ++ r)
                /\ Forall (fun gv => (g <= fst gv)%nat) (routed (ww_walk (B:=B) mapper (S g) (S pos) rest))
                /\ StronglySorted (fun p q => (fst p <= fst q)%nat) (routed (ww_walk (B:=B) mapper (S g) (S pos) rest))).
      { destruct (IH (S g) (S pos)) as ((r & Hr) & Hf & Hs). repeat split; [exists r; exact Hr| |exact Hs].
        eapply Forall_impl; [|exact Hf]. cbn. intros; lia. }
      assert (Stop : (exists r, src_nexts ((t, S j, e) :: rest) = map snd (@nil (nat * A)) ++ r)
                /\ Forall (fun gv : nat * A => (g <= fst gv)%nat) []
                /\ StronglySorted (fun p q : nat * A => (fst p <= fst q)%nat) []).
      { repeat split; [exists (src_nexts rest); reflexivity|constructor|constructor]. }
      destruct e as [x|z|].
      * rewrite routed_app. cbn [routed flat_map snd app]. destruct (mapper (S g)); cbn [routed flat_map snd app]; [apply Fire|apply Stop].
      * apply Stop.
      * rewrite routed_app. cbn [routed flat_map snd app]. destruct (mapper (S g)); cbn [routed flat_map snd app]; [apply Fire|apply Stop].
Qed.

(* nothing is lost while nothing fails (no error notification, no raising mapper call) and the
   source has not completed *)
Lemma ww_walk_no_loss (Htot : forall j, exists u, mapper j = Ok u) : forall (ins : list tin) g pos,
  no_err ins -> src_open ins ->
  map snd (routed (ww_walk (B:=B) mapper g pos ins)) = src_nexts ins.
Proof.
  induction ins as [|[[t k] e] rest IH]; intros g pos Hne Hso; [reflexivity|].
  pose proof (no_err_tail _ _ Hne) as Hne'. pose proof (src_open_tail _ _ Hso) as Hso'.
  cbn [ww_walk]. destruct k as [|j]; cbn [Nat.eqb].
  - destruct e as [x|z|].
    + cbn [routed flat_map snd app map src_nexts]. fold (routed (ww_walk (B:=B) mapper g (S pos) rest)). fold (src_nexts rest).
      f_equal. apply IH; assumption.
    + exfalso. apply (Hne t 0%nat z). left. reflexivity.
    + exfalso. apply (Hso t). left. reflexivity.
  - change (src_nexts ((t, S j, e) :: rest)) with (src_nexts rest).
    destruct (Nat.eqb j g); [|apply IH; assumption].
    destruct (Htot (S g)) as [u Hu].
    destruct e as [x|z|]; [| exfalso; apply (Hne t (S j) z); left; reflexivity |];
      rewrite routed_app; cbn [routed flat_map snd app]; rewrite Hu;
      cbn [routed flat_map snd app]; apply IH; assumption.
Qed.

Lemma routed_ww_start : routed (ww_start (A:=A) (B:=B) mapper) = [].
Proof. unfold ww_start. destruct (mapper 0%nat); reflexivity. Qed.

Theorem window_when_partition (ins : list tin) :
  let tr := fst (run all_imm (x_window_when (A:=A) (B:=B) mapper) (wports ins)) in
  (exists rest, src_nexts ins = map snd (routed tr) ++ rest)
  /\ StronglySorted (fun p q => (fst p <= fst q)%nat) (routed tr).
Proof.
  cbn zeta. rewrite window_when_run. unfold ww_out. rewrite routed_app, routed_ww_start. cbn [app].
  destruct (mapper 0%nat).
  - destruct (ww_walk_partition ins 0 1) as (H1 & _ & H3). split; assumption.
  - split; [exists (src_nexts ins); reflexivity|constructor].
Qed.

(* nothing is lost while nothing fails -- no error notification on any port, no raising call of the
   closing mapper (such a call ends the current window, the outer sequence and the subscription to
   the source: [window_when_raise_stops] below) -- and the source has not completed *)
Theorem window_when_no_loss (ins : list tin) : (forall j, exists u, mapper j = Ok u) ->
  no_err ins -> src_open ins ->
  map snd (routed (fst (run all_imm (x_window_when (A:=A) (B:=B) mapper) (wports ins)))) = src_nexts ins.
Proof.
  intros Htot Hne Hso. rewrite window_when_run. unfold ww_out. rewrite routed_app, routed_ww_start. cbn [app].
  destruct (Htot 0%nat) as [u ->]. apply ww_walk_no_loss; assumption.
Qed.

(* a raising call of the closing mapper is the END.  At the first call (inside subscribe()): window 0,
   already handed, gets the error, then the outer; the source, already subscribed, is released;
   nothing that comes later on any port is observed *)
Theorem window_when_first_call_raises (ins : list tin) z : mapper 0%nat = Raise z ->
  fst (run all_imm (x_window_when (A:=A) (B:=B) mapper) (wports ins))
  = [(0%nat, OHand 0%nat 0); (0%nat, OSub 0%nat); (0%nat, OWin 0%nat (Err z)); (0%nat, OEmit (Err z));
     (0%nat, OUnsub 0%nat)].
Proof. intros H. rewrite window_when_run. unfold ww_out, ww_start. rewrite H. reflexivity. Qed.

(* ... at a later call: when the closing observable of the current window g fires and call g+1 of the
   mapper raises z, window g completes, window g+1 is handed and gets the error z, then the outer;
   the source is released and the rest of the inputs is not observed *)
Theorem window_when_raise_stops g pos t (e : ev A) (rest : list tin) z :
  (forall z', e <> Err z') -> mapper (S g) = Raise z ->
  ww_walk (B:=B) mapper g pos ((t, S g, e) :: rest)
  = [(pos, OWin g Done); (pos, OHand (S g) 0); (pos, OUnsub (S g));
     (pos, OWin (S g) (Err z)); (pos, OEmit (Err z)); (pos, OUnsub 0%nat)].
Proof.
  intros He H. cbn [ww_walk Nat.eqb]. rewrite Nat.eqb_refl, H.
  destruct e as [x|z'|]; [reflexivity|exfalso; exact (He z' eq_refl)|reflexivity].
Qed.

(* buffers partition the source: while nothing fails, the buffers emitted up to and at the
   source's completion, concatenated, are the source's elements; then Done *)
Lemma bw_walk_partition (Htot : forall j, exists u, mapper j = Ok u) : forall (body : list tin) tD g c pos,
  no_err body -> src_open body ->
  exists bufs, emitted (bw_walk mapper g c pos (body ++ [(tD, 0%nat, Done)])) = map Next bufs ++ [Done]
               /\ concat bufs = c ++ src_nexts body.
Proof.
  induction body as [|[[t k] e] rest IH]; intros tD g c pos Hne Hso.
  - exists [c]. cbn. rewrite !app_nil_r. auto.
  - pose proof (no_err_tail _ _ Hne) as Hne'. pose proof (src_open_tail _ _ Hso) as Hso'.
    cbn [app bw_walk]. destruct k as [|j]; cbn [Nat.eqb].
    + destruct e as [x|z|].
      * destruct (IH tD g (c ++ [x]) (S pos) Hne' Hso') as (bufs & H1 & H2). exists bufs. split; [exact H1|].
        rewrite H2, <- app_assoc. reflexivity.
      * exfalso. apply (Hne t 0%nat z). left. reflexivity.
      * exfalso. apply (Hso t). left. reflexivity.
    + change (src_nexts ((t, S j, e) :: rest)) with (src_nexts rest).
      destruct (Nat.eqb j g); [|apply IH; assumption].
      destruct (Htot (S g)) as [u Hu].
      destruct (IH tD (S g) [] (S pos) Hne' Hso') as (bufs & H1 & H2).
      destruct e as [x|z|]; [| exfalso; apply (Hne t (S j) z); left; reflexivity |];
        rewrite Hu; exists (c :: bufs); cbn [app emitted flat_map snd map concat];
        fold (emitted (bw_walk mapper (S g) [] (S pos) (rest ++ [(tD, 0%nat, Done)])));
        rewrite H1, H2; auto.
Qed.

Theorem buffer_when_partition (body : list tin) tD : (forall j, exists u, mapper j = Ok u) ->
  no_err body -> src_open body ->
  exists bufs, emitted (fst (run all_imm (x_buffer_when (A:=A) mapper) (wports (body ++ [(tD, 0%nat, Done)]))))
               = map Next bufs ++ [Done]
               /\ concat bufs = src_nexts body.
Proof.
  intros Htot Hne Hso. rewrite buffer_when_run. unfold bw_out. destruct (Htot 0%nat) as [u ->].
  destruct (bw_walk_partition Htot body tD 0 [] 1 Hne Hso) as (bufs & H1 & H2).
  exists bufs. split; [|exact H2]. cbn [app emitted flat_map snd].
  fold (emitted (bw_walk mapper 0 [] 1 (body ++ [(tD, 0%nat, Done)]))). exact H1.
Qed.
End WhenReadings.
