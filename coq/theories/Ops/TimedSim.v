(* Closed-world environment for timer-using machines: a small discrete-event
   simulator that plays the scheduler.  External events (source notifications,
   dispose) come with their instants; every timer the machine requests at clock
   [now] with delay [d] fires exactly at [now + d] unless it was cancelled
   first.  Order at equal instants -- the policy of the proxy scheduler the
   implementation is driven with (harness/k2m.py: run_multi): source
   notifications first, then due timers (earliest due time, then lowest tag =
   scheduling order), a dispose last.

   The simulator only CHOOSES the next input; every input is handled by the
   runner's [rstep] (Ops/Multi.v), so a simulation is a run: [sim_is_run]. *)
From RxVerif Require Import Base.Prelude Ops.Machine Ops.Multi Ops.MultiFacts.

Section Sim.
Context {A B : Type}.

(* pending timers: (tag, absolute due time), in scheduling order *)
Definition pend := list (nat * Z).

Fixpoint earliest (p : pend) : option (nat * Z) :=
  match p with
  | [] => None
  | (tg, due) :: rest =>
      match earliest rest with
      | Some (tg', due') => if due' <? due then Some (tg', due') else Some (tg, due)
      | None => Some (tg, due)
      end
  end.

Definition new_timers (now : Z) (o : list (obs B)) : pend :=
  flat_map (fun x => match x with OTimer tg d => [(tg, now + d)] | _ => [] end) o.

(* after a step: timers requested during the step are added; timers that are
   no longer pending for the runner (fired, cancelled, released) are dropped *)
Definition upd (p : pend) (now : Z) (o : list (obs B)) (r' : rstate) : pend :=
  filter (fun td => mem (fst td) (r_timers r')) (p ++ new_timers now o).

(* the next input: (time, input, remaining external events) *)
Definition next_event (p : pend) (ext : list (Z * inp A))
  : option (Z * inp A * list (Z * inp A)) :=
  match ext, earliest p with
  | [], None => None
  | (t, i) :: ext', None => Some (t, i, ext')
  | [], Some (tg, due) => Some (due, ITick tg, [])
  | (t, i) :: ext', Some (tg, due) =>
      if match i with IDispose => t <? due | _ => t <=? due end
      then Some (t, i, ext') else Some (due, ITick tg, ext)
  end.

Context (m : machine A B).

(* one record per delivered input: (clock, input, what the runner observed) *)
Fixpoint sim (fuel : nat) (s : x_state m) (r : rstate) (p : pend) (ext : list (Z * inp A))
  : list (Z * inp A * list (obs B)) :=
  match fuel with
  | O => []
  | S f =>
      match next_event p ext with
      | None => []
      | Some (t, i, ext') =>
          let '(s', r', o) := rstep m s r t i in
          (t, i, o) :: sim f s' r' (upd p t o r') ext'
      end
  end.

(* subscription at clock t0, then the simulation *)
Definition simulate_fuel (fuel : nat) (t0 : Z) (ext : list (Z * inp A))
  : list (obs B) * list (Z * inp A * list (obs B)) :=
  let '(s0, cs, f) := x_start m in
  let '(r1, o1) := apply_cmds (RState [] [] false) cs in
  let '(r2, o2) := finish r1 f in
  (o1 ++ o2, sim fuel s0 r2 (upd [] t0 (o1 ++ o2) r2) ext).

(* enough for every machine that schedules at most two timers per external event *)
Definition simulate (t0 : Z) (ext : list (Z * inp A)) :=
  simulate_fuel (3 * length ext + 4) t0 ext.

Definition sim_inputs (l : list (Z * inp A * list (obs B))) : list (Z * inp A) :=
  map (fun x => (fst (fst x), snd (fst x))) l.

(* timed emissions: (clock reading, notification) *)
Definition sim_emits (l : list (Z * inp A * list (obs B))) : list (Z * ev B) :=
  flat_map (fun x => map (fun e => (fst (fst x), e)) (emits (snd x))) l.

Definition timed_emits (t0 : Z) (res : list (obs B) * list (Z * inp A * list (obs B))) : list (Z * ev B) :=
  map (fun e => (t0, e)) (emits (fst res)) ++ sim_emits (snd res).

(* position-tagged trace, as the runner produces it *)
Fixpoint tag_from (k : nat) (l : list (Z * inp A * list (obs B))) : list (nat * obs B) :=
  match l with
  | [] => []
  | x :: t => map (fun o => (k, o)) (snd x) ++ tag_from (S k) t
  end.

Lemma sim_inputs_cons t i o l : sim_inputs ((t, i, o) :: l) = (t, i) :: sim_inputs l.
Proof. reflexivity. Qed.

Lemma sim_is_run_from fuel : forall s r p ext k,
  fst (run_from m s r k (sim_inputs (sim fuel s r p ext))) = tag_from k (sim fuel s r p ext).
Proof.
  induction fuel as [|f IH]; intros s r p ext k; [reflexivity|].
  cbn [sim]. destruct (next_event p ext) as [[[t i] ext']|]; [|reflexivity].
  destruct (rstep m s r t i) as [[s' r'] o] eqn:E.
  rewrite sim_inputs_cons. cbn [run_from tag_from snd]. rewrite E.
  specialize (IH s' r' (upd p t o r') ext' (S k)).
  destruct (run_from m s' r' (S k) (sim_inputs (sim f s' r' (upd p t o r') ext'))) as [tr rf].
  cbn [fst] in *. now rewrite IH.
Qed.

(* a simulation IS a run of the machine on the input sequence it delivered *)
Theorem sim_is_run fuel t0 ext :
  fst (run m (sim_inputs (snd (simulate_fuel fuel t0 ext))))
  = map (fun o => (0%nat, o)) (fst (simulate_fuel fuel t0 ext)) ++ tag_from 1 (snd (simulate_fuel fuel t0 ext)).
Proof.
  unfold run, simulate_fuel. destruct (x_start m) as [[s0 cs] f].
  destruct (apply_cmds (RState [] [] false) cs) as [r1 o1].
  destruct (finish r1 f) as [r2 o2]. cbn [fst snd].
  pose proof (sim_is_run_from fuel s0 r2 (upd [] t0 (o1 ++ o2) r2) ext 1) as H.
  destruct (run_from m s0 r2 1 (sim_inputs (sim fuel s0 r2 (upd [] t0 (o1 ++ o2) r2) ext))) as [tr rf].
  cbn [fst] in *. now rewrite H.
Qed.

(* unfolding *)
Lemma sim_S f s r p ext :
  sim (S f) s r p ext =
  match next_event p ext with
  | None => []
  | Some (t, i, ext') =>
      let '(s', r', o) := rstep m s r t i in (t, i, o) :: sim f s' r' (upd p t o r') ext'
  end.
Proof. reflexivity. Qed.

Lemma sim_emits_cons t i o l :
  sim_emits ((t, i, o) :: l) = map (fun e => (t, e)) (emits o) ++ sim_emits l.
Proof. reflexivity. Qed.

(* once the runner stopped (terminal emitted or disposed) nothing is emitted *)
Lemma sim_stopped fuel : forall s r p ext, r_stopped r = true -> sim_emits (sim fuel s r p ext) = [].
Proof.
  induction fuel as [|f IH]; intros s r p ext H; [reflexivity|].
  rewrite sim_S. destruct (next_event p ext) as [[[t i] ext']|]; [|reflexivity].
  rewrite rstep_stopped by exact H. rewrite sim_emits_cons. cbn [emits flat_map map app]. now apply IH.
Qed.
End Sim.

(* a conforming timed source on port 0: elements at their instants, then at
   most one terminal *)
Inductive tterm := TTDone (t : Z) | TTErr (t : Z) (e : Z) | TTNever.

Definition tsrc {A} (tl : list (Z * A)) (tm : tterm) : list (Z * inp A) :=
  map (fun tx => (fst tx, ISrc 0%nat (Next (snd tx)))) tl ++
  match tm with
  | TTDone t => [(t, ISrc 0%nat Done)]
  | TTErr t e => [(t, ISrc 0%nat (Err e))]
  | TTNever => []
  end.

(* instants non-decreasing, starting not before [from] *)
Fixpoint sorted_from {A} (from : Z) (tl : list (Z * A)) : Prop :=
  match tl with
  | [] => True
  | (t, _) :: rest => from <= t /\ sorted_from t rest
  end.

Definition last_time {A} (from : Z) (tl : list (Z * A)) : Z :=
  fold_left (fun _ tx => fst tx) tl from.

Definition term_ok {A} (from : Z) (tl : list (Z * A)) (tm : tterm) : Prop :=
  match tm with
  | TTDone t | TTErr t _ => last_time from tl <= t
  | TTNever => True
  end.
