(* C12: consequences of the switch specification ([switch_spec], to which the
   machine is proved to refine for every mapper and every input sequence). *)
From RxVerif Require Import Base.Prelude Ops.Machine Ops.Multi Ops.MergeFacts.

Section SwitchSpec.
Context {A : Type}.

(* the specification's state after a prefix of the inputs: (outer live, id of the
   latest inner = number of inners created, latest inner still running), or None
   once the output has terminated *)
Fixpoint sw_after (mapper : A -> nat -> res unit) (ol : bool) (latest : nat) (has : bool)
  (ins : list (Z * inp A)) : option (bool * nat * bool) :=
  match ins with
  | [] => Some (ol, latest, has)
  | (_, ISrc O e) :: t =>
      if ol then
        match e with
        | Next x => match mapper x latest with
                    | Ok _ => sw_after mapper true (S latest) true t
                    | Raise _ => None
                    end
        | Err _ => None
        | Done => if has then sw_after mapper false latest has t else None
        end
      else sw_after mapper ol latest has t
  | (_, ISrc (S j) e) :: t =>
      if has && Nat.eqb (S j) latest then
        match e with
        | Next _ => sw_after mapper ol latest has t
        | Err _ => None
        | Done => if ol then sw_after mapper ol latest false t else None
        end
      else sw_after mapper ol latest has t
  | (_, ITick _) :: t => sw_after mapper ol latest has t
  | (_, IDispose) :: _ => None
  end.

(* An element is forwarded ONLY while its inner sequence is the most recently
   received one: whenever the specification emits x at input position p, that
   input is an element of the inner whose id is the latest one at that moment,
   and that inner is still running. *)
Theorem switch_forwards_only_latest mapper (ins : list (Z * inp A)) :
  forall ol latest has pos p x,
  In (p, Next x) (switch_spec mapper ol latest has pos ins) ->
  (pos <= p)%nat /\
  exists ol' latest' now,
    sw_after mapper ol latest has (firstn (p - pos) ins) = Some (ol', latest', true)
    /\ nth_error ins (p - pos) = Some (now, ISrc latest' (Next x))
    /\ (1 <= latest')%nat.
Proof.
  induction ins as [|[now i] rest IH]; intros ol latest has pos p x Hin; [destruct Hin|].
  cbn [switch_spec] in Hin.
  assert (Shift : forall ol1 latest1 has1,
     In (p, Next x) (switch_spec mapper ol1 latest1 has1 (S pos) rest) ->
     sw_after mapper ol latest has [(now, i)] = Some (ol1, latest1, has1) ->
     (pos <= p)%nat /\
     exists ol' latest' now0,
       sw_after mapper ol latest has (firstn (p - pos) ((now, i) :: rest)) = Some (ol', latest', true)
       /\ nth_error ((now, i) :: rest) (p - pos) = Some (now0, ISrc latest' (Next x))
       /\ (1 <= latest')%nat).
  { intros ol1 latest1 has1 H Hstep.
    destruct (IH ol1 latest1 has1 (S pos) p x H) as (Hle & ol' & latest' & n0 & Hs & Hn & Hpos).
    split; [lia|]. exists ol', latest', n0.
    replace (p - pos)%nat with (S (p - S pos)) by lia. cbn [firstn nth_error].
    split; [|split; [exact Hn|exact Hpos]].
    (* one step of sw_after, then the suffix *)
    revert Hstep Hs. generalize (firstn (p - S pos) rest) as pre. intros pre Hstep Hs.
    destruct i as [k e|tag|]; cbn [sw_after] in *.
    - destruct k as [|j].
      + destruct ol; [|injection Hstep as <- <- <-; exact Hs].
        destruct e as [y|e|].
        * destruct (mapper y latest); [injection Hstep as <- <- <-; exact Hs|discriminate].
        * discriminate.
        * destruct has; [injection Hstep as <- <- <-; exact Hs|discriminate].
      + destruct (has && Nat.eqb (S j) latest); [|injection Hstep as <- <- <-; exact Hs].
        destruct e as [y|e|].
        * injection Hstep as <- <- <-; exact Hs.
        * discriminate.
        * destruct ol; [injection Hstep as <- <- <-; exact Hs|discriminate].
    - injection Hstep as <- <- <-; exact Hs.
    - discriminate. }
  destruct i as [k e|tag|].
  - destruct k as [|j].
    + destruct ol.
      * destruct e as [y|e|].
        -- destruct (mapper y latest) eqn:Hm; [|destruct Hin as [E|[]]; discriminate].
           apply (Shift true (S latest) true Hin). cbn [sw_after]. now rewrite Hm.
        -- destruct Hin as [E|[]]. discriminate.
        -- destruct has; [|destruct Hin as [E|[]]; discriminate].
           apply (Shift false latest true Hin). reflexivity.
      * apply (Shift false latest has Hin). reflexivity.
    + destruct (has && Nat.eqb (S j) latest) eqn:Hc.
      * destruct e as [y|e|].
        -- destruct Hin as [E|Hin].
           ++ injection E as <- <-. split; [lia|]. rewrite Nat.sub_diag. cbn [firstn sw_after nth_error].
              apply andb_true_iff in Hc. destruct Hc as [-> Hc]. apply Nat.eqb_eq in Hc.
              exists ol, latest, now. rewrite <- Hc. repeat split. lia.
           ++ apply (Shift ol latest has Hin). cbn [sw_after]. now rewrite Hc.
        -- destruct Hin as [E|[]]. discriminate.
        -- destruct ol; [|destruct Hin as [E|[]]; discriminate].
           apply (Shift true latest false Hin). cbn [sw_after]. now rewrite Hc.
      * apply (Shift ol latest has Hin). cbn [sw_after]. now rewrite Hc.
  - apply (Shift ol latest has Hin). reflexivity.
  - destruct Hin.
Qed.

(* Completion is emitted only once the outer has completed and the latest inner has
   completed: at that input the specification's state is (outer done, latest inner
   running) and the input is the latest inner's completion -- or (outer live, no
   inner running) and the input is the outer's completion. *)
Theorem switch_completes_only_when_both_done mapper (ins : list (Z * inp A)) :
  forall ol latest has pos p,
  In (p, Done) (switch_spec mapper ol latest has pos ins) ->
  (pos <= p)%nat /\
  exists ol' latest' has' now,
    sw_after mapper ol latest has (firstn (p - pos) ins) = Some (ol', latest', has')
    /\ ((ol' = false /\ has' = true /\ nth_error ins (p - pos) = Some (now, ISrc latest' Done) /\ (1 <= latest')%nat)
        \/ (ol' = true /\ has' = false /\ nth_error ins (p - pos) = Some (now, ISrc 0%nat Done))).
Proof.
  induction ins as [|[now i] rest IH]; intros ol latest has pos p Hin; [destruct Hin|].
  cbn [switch_spec] in Hin.
  assert (Shift : forall ol1 latest1 has1,
     In (p, Done) (switch_spec mapper ol1 latest1 has1 (S pos) rest) ->
     sw_after mapper ol latest has [(now, i)] = Some (ol1, latest1, has1) ->
     (pos <= p)%nat /\
     exists ol' latest' has' now0,
       sw_after mapper ol latest has (firstn (p - pos) ((now, i) :: rest)) = Some (ol', latest', has')
       /\ ((ol' = false /\ has' = true /\ nth_error ((now, i) :: rest) (p - pos) = Some (now0, ISrc latest' Done) /\ (1 <= latest')%nat)
           \/ (ol' = true /\ has' = false /\ nth_error ((now, i) :: rest) (p - pos) = Some (now0, ISrc 0%nat Done)))).
  { intros ol1 latest1 has1 H Hstep.
    destruct (IH ol1 latest1 has1 (S pos) p H) as (Hle & ol' & latest' & has' & n0 & Hs & Hn).
    split; [lia|]. exists ol', latest', has', n0.
    replace (p - pos)%nat with (S (p - S pos)) by lia. cbn [firstn nth_error].
    split; [|exact Hn].
    revert Hstep Hs. generalize (firstn (p - S pos) rest) as pre. intros pre Hstep Hs.
    destruct i as [k e|tag|]; cbn [sw_after] in *.
    - destruct k as [|j].
      + destruct ol; [|injection Hstep as <- <- <-; exact Hs].
        destruct e as [y|e|].
        * destruct (mapper y latest); [injection Hstep as <- <- <-; exact Hs|discriminate].
        * discriminate.
        * destruct has; [injection Hstep as <- <- <-; exact Hs|discriminate].
      + destruct (has && Nat.eqb (S j) latest); [|injection Hstep as <- <- <-; exact Hs].
        destruct e as [y|e|].
        * injection Hstep as <- <- <-; exact Hs.
        * discriminate.
        * destruct ol; [injection Hstep as <- <- <-; exact Hs|discriminate].
    - injection Hstep as <- <- <-; exact Hs.
    - discriminate. }
  destruct i as [k e|tag|].
  - destruct k as [|j].
    + destruct ol.
      * destruct e as [y|e|].
        -- destruct (mapper y latest) eqn:Hm; [|destruct Hin as [E|[]]; discriminate].
           apply (Shift true (S latest) true Hin). cbn [sw_after]. now rewrite Hm.
        -- destruct Hin as [E|[]]. discriminate.
        -- destruct has.
           ++ apply (Shift false latest true Hin). reflexivity.
           ++ destruct Hin as [E|[]]. injection E as <-. split; [lia|]. rewrite Nat.sub_diag.
              cbn [firstn sw_after nth_error]. exists true, latest, false, now. split; [reflexivity|].
              right. repeat split.
      * apply (Shift false latest has Hin). reflexivity.
    + destruct (has && Nat.eqb (S j) latest) eqn:Hc.
      * destruct e as [y|e|].
        -- destruct Hin as [E|Hin]; [discriminate|].
           apply (Shift ol latest has Hin). cbn [sw_after]. now rewrite Hc.
        -- destruct Hin as [E|[]]. discriminate.
        -- destruct ol.
           ++ apply (Shift true latest false Hin). cbn [sw_after]. now rewrite Hc.
           ++ destruct Hin as [E|[]]. injection E as <-. split; [lia|]. rewrite Nat.sub_diag.
              cbn [firstn sw_after nth_error].
              apply andb_true_iff in Hc. destruct Hc as [-> Hc]. apply Nat.eqb_eq in Hc.
              exists false, latest, true, now. split; [reflexivity|]. left. rewrite <- Hc. repeat split. lia.
      * apply (Shift ol latest has Hin). cbn [sw_after]. now rewrite Hc.
  - apply (Shift ol latest has Hin). reflexivity.
  - destruct Hin.
Qed.
End SwitchSpec.
