(* C18: each buffer equals the contents of its window.  buffer* = window* |>
   flat_map(to_list) is the transformer [buffered] of Ops/Windows.v; the facts
   below are about its command-level core [buf_cmds], for EVERY window machine
   and every command stream:
   - while a window g is open, its buffer is what the buffer held when the
     stretch began plus exactly the elements sent to g since, in order
     ([buffer_tracks_window]);
   - when `CWin g Done` arrives, that list is what is emitted
     ([buffer_is_window_contents]: hand g ... complete g  ==> emit the elements
     sent to g in between);
   - a window's error is the result's error; plain outer emissions of the
     window operator do not exist. *)
From RxVerif Require Import Base.Prelude Ops.Machine Ops.MultiWin Ops.Windows.

Section Buf.
Context {A B0 : Type}.
Notation bc := (buf_cmds (A:=A) (B0:=B0)).

(* elements sent to window g in a command list *)
Definition nexts_of (g : nat) (cs : list (cmd A B0)) : list A :=
  flat_map (fun c => match c with CWin j (Next x) => if Nat.eqb g j then [x] else [] | _ => [] end) cs.

(* the stretch does not hand g again and does not terminate g *)
Definition quiet (g : nat) (cs : list (cmd A B0)) : Prop :=
  forall c, In c cs -> match c with
                       | CHand j _ => j <> g
                       | CWin j e => j = g -> is_terminal e = false
                       | _ => True
                       end.

Lemma buf_get_add_same g x l b : buf_get (A:=A) g l = Some b -> buf_get g (buf_add g x l) = Some (b ++ [x]).
Proof.
  induction l as [|[j c] t IH]; [discriminate|]. cbn [buf_get buf_add].
  destruct (Nat.eqb g j) eqn:E; cbn [buf_get]; rewrite E; [intros [= ->]; reflexivity|exact IH].
Qed.
Lemma buf_get_add_other g j x l : g <> j -> buf_get (A:=A) g (buf_add j x l) = buf_get g l.
Proof.
  intros Hne. induction l as [|[i c] t IH]; [reflexivity|]. cbn [buf_get buf_add].
  destruct (Nat.eqb_spec j i) as [->|Hji]; cbn [buf_get].
  - destruct (Nat.eqb_spec g i); [congruence|reflexivity].
  - destruct (Nat.eqb g i); [reflexivity|exact IH].
Qed.
Lemma buf_get_del_other g j l : g <> j -> buf_get (A:=A) g (buf_del j l) = buf_get g l.
Proof.
  intros Hne. induction l as [|[i c] t IH]; [reflexivity|]. cbn [buf_get buf_del].
  destruct (Nat.eqb_spec j i) as [->|Hji]; cbn [buf_get].
  - destruct (Nat.eqb_spec g i); [congruence|reflexivity].
  - destruct (Nat.eqb g i); [reflexivity|exact IH].
Qed.
Lemma buf_get_snoc_other g j l : g <> j -> buf_get (A:=A) g (l ++ [(j, [])]) = buf_get g l.
Proof.
  intros Hne. induction l as [|[i c] t IH]; cbn [app buf_get].
  - destruct (Nat.eqb_spec g j); [congruence|reflexivity].
  - destruct (Nat.eqb g i); [reflexivity|exact IH].
Qed.
Lemma buf_get_snoc_new g l : buf_get (A:=A) g l = None -> buf_get g (l ++ [(g, [])]) = Some [].
Proof.
  induction l as [|[i c] t IH]; cbn [app buf_get]; [rewrite Nat.eqb_refl; reflexivity|].
  destruct (Nat.eqb g i); [discriminate|exact IH].
Qed.

(* while g stays open and the result has not ended, g's buffer grows by exactly
   the elements sent to g *)
Theorem buffer_tracks_window keep g (cs : list (cmd A B0)) : forall open od b,
  quiet g cs -> buf_get g open = Some b ->
  snd (bc keep open od cs) = Cont ->
  buf_get g (fst (fst (bc keep open od cs))) = Some (b ++ nexts_of g cs).
Proof.
  induction cs as [|c t IH]; intros open od b Hq Hg Hf.
  - cbn. now rewrite app_nil_r.
  - assert (Hq' : quiet g t) by (intros c' Hc'; apply Hq; right; exact Hc').
    pose proof (Hq c (or_introl eq_refl)) as Hc.
    destruct c as [b0|j key|j e|k|k|tg d|tg|n|k]; cbn [buf_cmds nexts_of flat_map] in *;
      fold (nexts_of g t) in *.
    + apply IH; assumption.
    + specialize (IH (open ++ [(j, [])]) od b Hq').
      destruct (bc keep (open ++ [(j, [])]) od t) as [[o out] f]. cbn [fst snd] in *.
      apply IH; [|exact Hf]. rewrite buf_get_snoc_other by congruence. exact Hg.
    + destruct e as [x|z|].
      * destruct (Nat.eqb_spec g j) as [<-|Hne].
        -- specialize (IH (buf_add g x open) od (b ++ [x]) Hq' (buf_get_add_same g x open b Hg)).
           destruct (bc keep (buf_add g x open) od t) as [[o out] f]. cbn [fst snd] in *.
           rewrite IH by exact Hf. cbn [app]. now rewrite <- app_assoc.
        -- specialize (IH (buf_add j x open) od b Hq').
           destruct (bc keep (buf_add j x open) od t) as [[o out] f]. cbn [fst snd app] in *.
           apply IH; [|exact Hf]. rewrite buf_get_add_other by exact Hne. exact Hg.
      * destruct (buf_get j open) eqn:Ej; [cbn in Hf; discriminate|]. cbn [app]. apply IH; assumption.
      * destruct (buf_get j open) as [bj|] eqn:Ej; [|cbn [app]; apply IH; assumption].
        assert (Hne : g <> j) by (intros ->; specialize (Hc eq_refl); discriminate).
        destruct (od && match buf_del j open with [] => true | _ => false end); [cbn in Hf; discriminate|].
        specialize (IH (buf_del j open) od b Hq').
        destruct (bc keep (buf_del j open) od t) as [[o out] f]. cbn [fst snd app] in *.
        apply IH; [|exact Hf]. rewrite buf_get_del_other by exact Hne. exact Hg.
    + specialize (IH open od b Hq' Hg). destruct (bc keep open od t) as [[o out] f]. cbn [fst snd] in *. auto.
    + specialize (IH open od b Hq' Hg). destruct (bc keep open od t) as [[o out] f]. cbn [fst snd] in *. auto.
    + specialize (IH open od b Hq' Hg). destruct (bc keep open od t) as [[o out] f]. cbn [fst snd] in *. auto.
    + specialize (IH open od b Hq' Hg). destruct (bc keep open od t) as [[o out] f]. cbn [fst snd] in *. auto.
    + specialize (IH open od b Hq' Hg). destruct (bc keep open od t) as [[o out] f]. cbn [fst snd] in *. auto.
    + specialize (IH open od b Hq' Hg). destruct (bc keep open od t) as [[o out] f]. cbn [fst snd] in *. auto.
Qed.

(* processing is sequential *)
Lemma buf_cmds_app keep (a : list (cmd A B0)) : forall open od b,
  bc keep open od (a ++ b)
  = match snd (bc keep open od a) with
    | Cont => let '(o2, out2, f2) := bc keep (fst (fst (bc keep open od a))) od b in
              (o2, snd (fst (bc keep open od a)) ++ out2, f2)
    | _ => bc keep open od a
    end.
Proof.
  induction a as [|c t IH]; intros open od b.
  - cbn. destruct (bc keep open od b) as [[o out] f]. reflexivity.
  - destruct c as [b0|j key|j e|k|k|tg d|tg|n|k]; cbn [app buf_cmds].
    + apply IH.
    + rewrite IH. destruct (bc keep (open ++ [(j, [])]) od t) as [[o out] f]. cbn [fst snd].
      destruct f; try reflexivity. destruct (bc keep o od b) as [[o2 out2] f2]. reflexivity.
    + destruct e as [x|z|].
      * rewrite IH. destruct (bc keep (buf_add j x open) od t) as [[o out] f]. cbn [fst snd].
        destruct f; try reflexivity. destruct (bc keep o od b) as [[o2 out2] f2]. reflexivity.
      * destruct (buf_get j open); [reflexivity|apply IH].
      * destruct (buf_get j open) as [bj|]; [|apply IH].
        destruct (od && match buf_del j open with [] => true | _ => false end); [reflexivity|].
        rewrite IH. destruct (bc keep (buf_del j open) od t) as [[o out] f]. cbn [fst snd].
        destruct f; try reflexivity. destruct (bc keep o od b) as [[o2 out2] f2]. cbn. now rewrite app_assoc.
    + rewrite IH. destruct (bc keep open od t) as [[o out] f]. cbn [fst snd].
      destruct f; try reflexivity. destruct (bc keep o od b) as [[o2 out2] f2]. reflexivity.
    + rewrite IH. destruct (bc keep open od t) as [[o out] f]. cbn [fst snd].
      destruct f; try reflexivity. destruct (bc keep o od b) as [[o2 out2] f2]. reflexivity.
    + rewrite IH. destruct (bc keep open od t) as [[o out] f]. cbn [fst snd].
      destruct f; try reflexivity. destruct (bc keep o od b) as [[o2 out2] f2]. reflexivity.
    + rewrite IH. destruct (bc keep open od t) as [[o out] f]. cbn [fst snd].
      destruct f; try reflexivity. destruct (bc keep o od b) as [[o2 out2] f2]. reflexivity.
    + rewrite IH. destruct (bc keep open od t) as [[o out] f]. cbn [fst snd].
      destruct f; try reflexivity. destruct (bc keep o od b) as [[o2 out2] f2]. reflexivity.
    + rewrite IH. destruct (bc keep open od t) as [[o out] f]. cbn [fst snd].
      destruct f; try reflexivity. destruct (bc keep o od b) as [[o2 out2] f2]. reflexivity.
Qed.

Definition emits_of (out : list (cmd A (list A))) : list (list A) :=
  flat_map (fun c => match c with CEmit l => [l] | _ => [] end) out.

(* THEOREM: window g is handed, then (stretch [mid]) receives elements, then
   completes: what is emitted at that point is exactly the list of the elements
   sent to g in between.  (keep = false -- buffer_with_count -- drops an empty
   list; if the outer is done and g was the last open window, the result
   completes there.) *)
Theorem buffer_is_window_contents keep g key (mid post : list (cmd A B0)) open od :
  buf_get g open = None -> quiet g mid ->
  snd (bc keep (open ++ [(g, [])]) od mid) = Cont ->
  let o1 := fst (fst (bc keep (open ++ [(g, [])]) od mid)) in
  let content := nexts_of g mid in
  snd (fst (bc keep open od (CHand g key :: mid ++ CWin g Done :: post)))
  = snd (fst (bc keep (open ++ [(g, [])]) od mid))
    ++ (if keep || negb (match content with [] => true | _ => false end) then [CEmit content] else [])
    ++ (if od && match buf_del g o1 with [] => true | _ => false end then []
        else snd (fst (bc keep (buf_del g o1) od post))).
Proof.
  intros Hnone Hq Hf. cbn zeta. cbn [buf_cmds].
  pose proof (buffer_tracks_window keep g mid (open ++ [(g, [])]) od [] Hq (buf_get_snoc_new g open Hnone) Hf) as Ht.
  cbn [app] in Ht.
  assert (E : bc keep (open ++ [(g, [])]) od (mid ++ CWin g Done :: post)
              = let '(o2, out2, f2) := bc keep (fst (fst (bc keep (open ++ [(g, [])]) od mid))) od (CWin g Done :: post) in
                (o2, snd (fst (bc keep (open ++ [(g, [])]) od mid)) ++ out2, f2)).
  { rewrite buf_cmds_app, Hf. reflexivity. }
  rewrite E. clear E. cbn [buf_cmds]. rewrite Ht.
  destruct (bc keep (open ++ [(g, [])]) od mid) as [[o1 out1] f1]. cbn [fst snd] in *.
  destruct (od && match buf_del g o1 with [] => true | _ => false end); cbn [fst snd].
  - now rewrite app_nil_r.
  - destruct (bc keep (buf_del g o1) od post) as [[o3 out3] f3]. cbn [fst snd]. reflexivity.
Qed.

(* a window's error is the result's error *)
Theorem buffer_window_error keep g z (post : list (cmd A B0)) open od b :
  buf_get g open = Some b -> bc keep open od (CWin g (Err z) :: post) = (open, [], Fail z).
Proof. intros H. cbn [buf_cmds]. now rewrite H. Qed.
End Buf.
