(* C16: throttle_with_mapper at run level.  Over ALL interleavings of the notifications of the
   source (port 0) and of the throttle observables the mapper makes (port j+1 for the j-th
   accepted element), the closed world [simulate] of the machine [x_throttle_with_mapper]
   (Ops/Timed.v, operators/_debounce.py: throttle_with_mapper_) equals the walk [thm_spec]. *)
From RxVerif Require Import Base.Prelude Ops.Machine Ops.Multi Ops.MultiFacts Ops.Timed Ops.TimedSim
  Ops.TimedFacts Ops.TimedSubFacts Ops.SimPortSteps.

Section ThrottleMapperRun.
Context {A : Type}.
Notation tin := (Z * nat * ev A)%type.
Context (mapper : A -> nat -> res unit).

Definition opt_at (t : Z) (v : option A) : list (Z * ev A) :=
  match v with Some x => [(t, Next x)] | None => [] end.

(* [cnt]: elements accepted so far (the throttle observable of the latest one is port [cnt]);
   [pend]: the latest element, while its throttle observable has not fired *)
Fixpoint thm_spec (cnt : nat) (pend : option A) (ins : list tin) : list (Z * ev A) :=
  match ins with
  | [] => []
  | (t, O, e) :: rest =>
      match e with
      | Next x =>
          match mapper x cnt with
          | Raise c => [(t, Err c)]                          (* the pending element is dropped *)
          | Ok _ => thm_spec (S cnt) (Some x) rest           (* replaces the pending element *)
          end
      | Err c => [(t, Err c)]
      | Done => opt_at t pend ++ [(t, Done)]                  (* completion flushes it *)
      end
  | (t, k, e) :: rest =>
      match pend with
      | Some v =>
          if Nat.eqb k cnt then
            match e with
            | Err c => [(t, Err c)]
            | _ => (t, Next v) :: thm_spec cnt None rest      (* on_next or on_completed of the throttle *)
            end
          else thm_spec cnt pend rest                         (* a throttle observable of an older element *)
      | None => thm_spec cnt pend rest
      end
  end.

Local Notation M := (x_throttle_with_mapper mapper).

Definition thm_live (has : bool) (cnt : nat) : list nat := 0%nat :: if has then [cnt] else [].

Lemma thm_unsub_prev (has : bool) cnt (cs : list (cmd A)) : (has = true -> cnt <> 0%nat) ->
  apply_cmds (RState (thm_live has cnt) [] false) (unsub_prev cnt ++ cs)
  = let '(r, o) := apply_cmds (RState [0%nat] [] false) cs in (r, (if has then [OUnsub cnt] else []) ++ o).
Proof.
  intros H. unfold thm_live. destruct cnt as [|c].
  - destruct has; [exfalso; apply H; reflexivity|]. cbn [unsub_prev app]. destruct (apply_cmds _ cs); reflexivity.
  - cbn [unsub_prev app apply_cmds r_live r_timers r_stopped]. destruct has.
    + unfold mem. cbn [existsb Nat.eqb]. rewrite Nat.eqb_refl. cbn [orb remove Nat.eqb]. rewrite Nat.eqb_refl.
      destruct (apply_cmds _ cs); reflexivity.
    + unfold mem. cbn [existsb Nat.eqb orb]. destruct (apply_cmds _ cs); reflexivity.
Qed.

Lemma thm_sim : forall (ins : list tin) fuel has value id subs cnt, (length ins <= fuel)%nat ->
  (has = true -> value <> None /\ lookup cnt subs = Some id /\ cnt <> 0%nat) ->
  sim_emits (sim M fuel (ThmSt has value id subs cnt) (RState (thm_live has cnt) [] false) [] (ext2_of ins))
  = thm_spec cnt (if has then value else None) ins.
Proof.
  induction ins as [|[[t k] e] rest IH]; intros fuel has value id subs cnt Hf Hinv.
  - now rewrite ext2_of_nil, sim_nil.
  - destruct fuel as [|f]; [cbn in Hf; lia|]. cbn [length] in Hf.
    rewrite ext2_of_cons. cbn [thm_spec].
    assert (Hc : has = true -> cnt <> 0%nat) by (intros H; apply Hinv, H).
    destruct k as [|k].
    + destruct e as [x|c|].
      * destruct (mapper x cnt) as [u|c] eqn:Em.
        -- etransitivity; [eapply sim_port_cont; [reflexivity|cbn; rewrite Em; reflexivity| |]|].
           ++ rewrite (thm_unsub_prev has cnt _ Hc). cbn. reflexivity.
           ++ reflexivity.
           ++ assert (Ee : emits ((if has then [@OUnsub A cnt] else []) ++ [OSub (S cnt)]) = []) by (destruct has; reflexivity).
              rewrite Ee. cbn [map app]. unfold detach. cbn [is_terminal andb].
              apply (IH f true (Some x) (S id) ((S cnt, S id) :: subs) (S cnt)); [lia|].
              intros _. split; [discriminate|]. split; [|discriminate]. cbn [lookup]. now rewrite Nat.eqb_refl.
        -- etransitivity; [eapply sim_port_end; [reflexivity|cbn; rewrite Em; reflexivity|discriminate|cbn; reflexivity]|].
           reflexivity.
      * etransitivity; [eapply sim_port_end; [reflexivity|cbn; reflexivity|discriminate|]|].
        ++ rewrite <- (app_nil_r (unsub_prev cnt)). rewrite (thm_unsub_prev has cnt _ Hc). cbn. reflexivity.
        ++ destruct has; reflexivity.
      * destruct has; [destruct value as [v|]; [|exfalso; destruct (Hinv eq_refl) as [Hv _]; apply Hv; reflexivity]|];
          (etransitivity; [eapply sim_port_end; [reflexivity|cbn; reflexivity|discriminate|]|];
           [rewrite (thm_unsub_prev _ cnt _ Hc); cbn; reflexivity|reflexivity]).
    + destruct has.
      2: { rewrite sim_port_dead by reflexivity. apply IH; [lia|discriminate]. }
      destruct (Hinv eq_refl) as (Hv & Hl & Hn). destruct value as [v|]; [clear Hv|contradiction].
      assert (Hm : mem (S k) (thm_live true cnt) = Nat.eqb (S k) cnt).
      { unfold thm_live, mem. cbn [existsb Nat.eqb]. now rewrite Bool.orb_false_r. }
      destruct (Nat.eqb (S k) cnt) eqn:Ek.
      2: { rewrite sim_port_dead by exact Hm. apply IH; [lia|intros _]. repeat split; [discriminate|exact Hl|exact Hn]. }
      apply Nat.eqb_eq in Ek. subst cnt.
      assert (Hgo : forall e', (forall c, e' <> Err c) ->
                sim_emits (sim M (S f) (ThmSt true (Some v) id subs (S k)) (RState (thm_live true (S k)) [] false) []
                             ((t, ISrc (S k) e') :: ext2_of rest))
                = (t, Next v) :: thm_spec (S k) None rest).
      { intros e' He'.
        etransitivity; [eapply (sim_port_cont M f _ _ t (S k) e' _ (ThmSt false (Some v) id subs (S k)) [CEmit v; CUnsub (S k)]);
                        [exact Hm| | |]|].
        - cbn [x_step x_throttle_with_mapper tm_has tm_value tm_id tm_subs tm_cnt]. rewrite Hl, Nat.eqb_refl.
          destruct e' as [y|c|]; [reflexivity|exfalso; exact (He' c eq_refl)|reflexivity].
        - cbn [apply_cmds r_live r_timers r_stopped]. rewrite Hm. unfold thm_live. cbn [remove Nat.eqb]. rewrite Nat.eqb_refl. reflexivity.
        - reflexivity.
        - cbn [emits flat_map map app]. f_equal. unfold detach. cbn [r_live]. unfold mem. cbn [existsb Nat.eqb orb].
          rewrite Bool.andb_false_r. apply (IH f false (Some v) id subs (S k)); [lia|discriminate]. }
      destruct e as [y|c|].
      * apply Hgo. discriminate.
      * etransitivity; [eapply sim_port_end; [exact Hm|cbn; reflexivity|discriminate|cbn; reflexivity]|]. reflexivity.
      * apply Hgo. discriminate.
Qed.

Theorem throttle_with_mapper_walk t0 (ins : list tin) :
  timed_emits t0 (simulate M t0 (ext2_of ins)) = thm_spec 0 None ins.
Proof.
  unfold simulate, simulate_fuel, timed_emits.
  cbn [x_start x_throttle_with_mapper apply_cmds finish fst snd app emits flat_map map r_live r_timers r_stopped].
  rewrite upd_no_timers_r by reflexivity.
  apply (thm_sim ins _ false None 0 [] 0); [unfold ext2_of; rewrite map_length; lia|discriminate].
Qed.

(* ---- property-level reading: an element is emitted only when ITS OWN throttle observable
   fires before the source notifies again, or when the source completes while it is pending ---- *)
Definition thm_cause (j : nat) (t : Z) (mid : list tin) (k : nat) (e : ev A) : Prop :=
  port_silent 0%nat mid /\ port_silent j mid /\ ((k = j /\ j <> 0%nat /\ fires e) \/ (k = 0%nat /\ e = Done)).

Lemma thm_cause_cons j t i mid k e : snd (fst i) <> 0%nat -> snd (fst i) <> j ->
  thm_cause j t mid k e -> thm_cause j t (i :: mid) k e.
Proof. intros H0 Hj (A0 & Aj & H). repeat split; [apply port_silent_cons|apply port_silent_cons|]; assumption. Qed.

Lemma thm_next_origin : forall (ins : list tin) cnt pend t x,
  In (t, Next x) (thm_spec cnt pend ins) ->
  (pend = Some x /\ exists mid k e rest, ins = mid ++ (t, k, e) :: rest /\ thm_cause cnt t mid k e)
  \/ (exists pre tx mid k e rest,
        ins = pre ++ (tx, 0%nat, Next x) :: mid ++ (t, k, e) :: rest /\ thm_cause (S (cnt + count0 pre)) t mid k e).
Proof.
  induction ins as [|[[t' k'] e'] rest IH]; intros cnt pend t x Hin; [destruct Hin|].
  cbn [thm_spec] in Hin. destruct k' as [|k'].
  - destruct e' as [y|c|].
    + destruct (mapper y cnt) as [u|c]; [|destruct Hin as [Hin|[]]; discriminate Hin].
      right. destruct (IH _ _ _ _ Hin) as [(Ep & mid & k & e & rest' & E & Hc)|(pre & tx & mid & k & e & rest' & E & Hc)].
      * injection Ep as ->. exists [], t', mid, k, e, rest'. cbn [app count0 filter length]. rewrite Nat.add_0_r, E. auto.
      * exists ((t', 0%nat, Next y) :: pre), tx, mid, k, e, rest'. rewrite count0_cons0, E.
        replace (S (cnt + S (count0 pre))) with (S (S cnt + count0 pre)) by lia. auto.
    + destruct Hin as [Hin|[]]; discriminate Hin.
    + left. destruct pend as [v|]; cbn [opt_at app] in Hin.
      * destruct Hin as [Hin|[Hin|[]]]; [|discriminate Hin]. injection Hin as -> ->.
        split; [reflexivity|]. exists [], 0%nat, Done, rest. split; [reflexivity|].
        repeat split; [apply port_silent_nil|apply port_silent_nil|right; auto].
      * destruct Hin as [Hin|[]]; discriminate Hin.
  - assert (Hskip : In (t, Next x) (thm_spec cnt pend rest) -> S k' <> cnt \/ pend = None ->
      (pend = Some x /\ exists mid k e rest0, (t', S k', e') :: rest = mid ++ (t, k, e) :: rest0 /\ thm_cause cnt t mid k e)
      \/ (exists pre tx mid k e rest0,
            (t', S k', e') :: rest = pre ++ (tx, 0%nat, Next x) :: mid ++ (t, k, e) :: rest0
            /\ thm_cause (S (cnt + count0 pre)) t mid k e)).
    { intros H Hne. destruct (IH _ _ _ _ H) as [(Ep & mid & k & e & rest' & E & Hc)|(pre & tx & mid & k & e & rest' & E & Hc)].
      - left. split; [exact Ep|]. exists ((t', S k', e') :: mid), k, e, rest'. rewrite E. split; [reflexivity|].
        apply thm_cause_cons; [discriminate| |exact Hc]. destruct Hne as [Hne|Hne]; [exact Hne|]. rewrite Hne in Ep. discriminate Ep.
      - right. exists ((t', S k', e') :: pre), tx, mid, k, e, rest'. rewrite count0_consS, E. auto. }
    destruct pend as [v|]; [|apply Hskip; [exact Hin|right; reflexivity]].
    destruct (Nat.eqb (S k') cnt) eqn:Ek; [|apply Hskip; [exact Hin|left; apply Nat.eqb_neq; exact Ek]].
    apply Nat.eqb_eq in Ek. subst cnt.
    assert (Hgen : fires e' -> In (t, Next x) ((t', Next v) :: thm_spec (S k') None rest) ->
      (Some v = Some x /\ exists mid k e rest0, (t', S k', e') :: rest = mid ++ (t, k, e) :: rest0 /\ thm_cause (S k') t mid k e)
      \/ (exists pre tx mid k e rest0,
            (t', S k', e') :: rest = pre ++ (tx, 0%nat, Next x) :: mid ++ (t, k, e) :: rest0
            /\ thm_cause (S (S k' + count0 pre)) t mid k e)).
    { intros He' [H|H].
      - injection H as -> ->. left. split; [reflexivity|]. exists [], (S k'), e', rest. split; [reflexivity|].
        repeat split; [apply port_silent_nil|apply port_silent_nil|left; repeat split; [discriminate|exact He']].
      - destruct (IH _ _ _ _ H) as [(Ep & _)|(pre & tx & mid & k & e & rest' & E & Hc)]; [discriminate Ep|].
        right. exists ((t', S k', e') :: pre), tx, mid, k, e, rest'. rewrite count0_consS, E. auto. }
    destruct e' as [z|c|]; [apply Hgen; [exact I|exact Hin]|destruct Hin as [Hin|[]]; discriminate Hin|apply Hgen; [exact I|exact Hin]].
Qed.

(* the element x emitted at t was delivered by the source as its j-th notification (j = count0
   pre) at tx; since then the source did not notify, nor did the throttle observable of x (port
   j+1), until -- at t -- either that throttle observable fired (on_next or on_completed) or
   the source completed *)
Theorem thm_emitted_cause (ins : list tin) t x :
  In (t, Next x) (thm_spec 0 None ins) ->
  exists pre tx mid k e rest,
    ins = pre ++ (tx, 0%nat, Next x) :: mid ++ (t, k, e) :: rest
    /\ port_silent 0%nat mid /\ port_silent (S (count0 pre)) mid
    /\ ((k = S (count0 pre) /\ fires e) \/ (k = 0%nat /\ e = Done)).
Proof.
  intros Hin. destruct (thm_next_origin ins 0 None t x Hin) as [(Ep & _)|(pre & tx & mid & k & e & rest & E & H0 & Hj & Hc)]; [discriminate Ep|].
  exists pre, tx, mid, k, e, rest. cbn [Nat.add] in *. repeat split; try assumption.
  destruct Hc as [(Hk & _ & He)|Hc]; [left; auto|right; exact Hc].
Qed.

Theorem throttle_with_mapper_emitted_cause t0 (ins : list tin) t x :
  In (t, Next x) (timed_emits t0 (simulate M t0 (ext2_of ins))) ->
  exists pre tx mid k e rest,
    ins = pre ++ (tx, 0%nat, Next x) :: mid ++ (t, k, e) :: rest
    /\ port_silent 0%nat mid /\ port_silent (S (count0 pre)) mid
    /\ ((k = S (count0 pre) /\ fires e) \/ (k = 0%nat /\ e = Done)).
Proof. rewrite throttle_with_mapper_walk. apply thm_emitted_cause. Qed.
End ThrottleMapperRun.
