(* C17: skip_last_with_time WITHOUT the hypothesis that the instants are sorted.
   operators/_skiplastwithtime.py keeps a FIFO queue and, at every on_next and at on_completed,
   pops from the head while the head's age reached the duration: the head blocks.  On a
   timeline whose clock readings are not monotone an element that is old enough therefore waits
   behind a younger head.  Stated here: (1) the walk for ANY notification sequence; (2) the
   closed form for a source that sends elements and at most one terminal, by the index of the
   notification at which every element leaves ([slu_out]); (3) what follows: the emitted
   elements are a prefix of the source's, every one had reached age d at its emission instant,
   the release indices are monotone; on sorted timelines [slu_out] is [sl_out]; on unsorted
   ones [sl_out] is not what the machine does (witness). *)
From RxVerif Require Import Base.Prelude Ops.Machine Ops.Multi Ops.MultiFacts Ops.Timed Ops.TimedSim
  Ops.TimedFacts Ops.TimedWindowFacts Ops.TimedWindowFacts2.

Section SkipLastUnsorted.
Context {A : Type}.

(* ---- (1) the walk: any notification sequence, any instants ---- *)
Fixpoint slw_spec (d : Z) (q : list (Z * A)) (es : list (Z * ev A)) : list (Z * ev A) :=
  match es with
  | [] => []
  | (t, Next x) :: rest =>
      let '(o, q') := pop_aged t d (q ++ [(t, x)]) in map (fun y => (t, Next y)) o ++ slw_spec d q' rest
  | (t, Err c) :: _ => [(t, Err c)]
  | (t, Done) :: _ => map (fun y => (t, Next y)) (fst (pop_aged t d q)) ++ [(t, Done)]
  end.

Lemma slw_sim d : forall (es : list (Z * ev A)) fuel q, (length es <= fuel)%nat ->
  sim_emits (sim (x_skip_last_with_time d) fuel q R0 [] (ext_of es)) = slw_spec d q es.
Proof.
  induction es as [|[t e] rest IH]; intros fuel q Hf.
  - now rewrite ext_of_nil, sim_nil.
  - destruct fuel as [|f]; [cbn in Hf; lia|]. cbn [length] in Hf.
    rewrite sim_S, ext_of_cons. cbn [next_event earliest fst snd]. unfold rstep.
    destruct e as [x|c|]; cbn [slw_spec].
    + cbn. destruct (pop_aged t d (q ++ [(t, x)])) as [o q'].
      rewrite apply_cmds_emit_list. sim_fin. rewrite app_nil_r, filter_false.
      rewrite emits_emit_list, map_map. f_equal. apply IH. lia.
    + cbn. sim_fin. rewrite sim_stopped by reflexivity. reflexivity.
    + cbn. destruct (pop_aged t d q) as [o q'].
      rewrite apply_cmds_emit_list. sim_fin. rewrite sim_stopped by reflexivity. rewrite app_nil_r.
      cbn [fst]. rewrite emits_app, emits_emit_list, map_app, map_map. reflexivity.
Qed.

Theorem skip_last_with_time_walk t0 d (es : list (Z * ev A)) :
  timed_emits t0 (simulate (x_skip_last_with_time d) t0 (ext_of es)) = slw_spec d [] es.
Proof.
  unfold simulate, simulate_fuel, timed_emits.
  cbn [x_start x_skip_last_with_time apply_cmds finish fst snd app emits flat_map map].
  change (upd [] t0 [OSub 0%nat] (RState [0%nat] [] false)) with (@nil (nat * Z)).
  apply slw_sim. rewrite ext_of_length. lia.
Qed.

(* ---- (2) closed form by release index ----
   [U]: the instants of the notifications that pop (the elements', then the completion's);
   element i (arrived with U[i]) leaves at the least index j, not below i and not below the index
   at which its predecessor left, such that d <= U[j] - t_i; if there is none it never leaves,
   and neither does any later element *)
Definition first_aged (d : Z) (U : list Z) (lo : nat) (t : Z) : option nat :=
  find (fun j => d <=? nth j U 0 - t) (seq lo (length U - lo)).

Fixpoint slu_out (d : Z) (U : list Z) (lo i : nat) (tl : list (Z * A)) : list (Z * ev A) :=
  match tl with
  | [] => []
  | (t, x) :: rest =>
      match first_aged d U (Nat.max lo i) t with
      | Some j => (nth j U 0, Next x) :: slu_out d U j (S i) rest
      | None => []
      end
  end.

Lemma first_aged_here d U n t : (n < length U)%nat -> (d <=? nth n U 0 - t) = true ->
  first_aged d U n t = Some n.
Proof.
  intros Hn H. unfold first_aged. replace (length U - n)%nat with (S (length U - S n)) by lia.
  cbn [seq find]. rewrite H. reflexivity.
Qed.

Lemma first_aged_next d U n t : (n < length U)%nat -> (d <=? nth n U 0 - t) = false ->
  first_aged d U n t = first_aged d U (S n) t.
Proof.
  intros Hn H. unfold first_aged. replace (length U - n)%nat with (S (length U - S n)) by lia.
  cbn [seq find]. rewrite H. reflexivity.
Qed.

Lemma first_aged_end d U lo t : (length U <= lo)%nat -> first_aged d U lo t = None.
Proof. intros H. unfold first_aged. replace (length U - lo)%nat with 0%nat by lia. reflexivity. Qed.

Lemma slu_out_end d U lo i tl : (length U <= lo)%nat -> slu_out d U lo i tl = [].
Proof. intros H. destruct tl as [|[t x] r]; [reflexivity|]. cbn [slu_out]. rewrite first_aged_end by lia. reflexivity. Qed.

(* one popping notification, index n at instant u: the aged prefix p of the queue leaves *)
Lemma slu_pop d U n u : nth n U 0 = u -> (n < length U)%nat -> forall (p : list (Z * A)) R q2 post,
  Forall (fun tx => aged u d tx = true) p ->
  match q2 with [] => True | tx :: _ => aged u d tx = false end ->
  ((R + length p + length q2 = S n)%nat \/ (post = [] /\ (R + length p + length q2 = n)%nat)) ->
  slu_out d U n R (p ++ q2 ++ post) = at_time u p ++ slu_out d U (S n) (R + length p) (q2 ++ post).
Proof.
  intros Hu Hn. induction p as [|[t x] p IH]; intros R q2 post Ha Hy Hlen.
  - cbn [app at_time map length]. rewrite Nat.add_0_r. destruct q2 as [|[t x] q2].
    + cbn [app length] in *. destruct Hlen as [Hlen|[-> _]]; [|reflexivity].
      destruct post as [|[t x] post]; [reflexivity|]. cbn [slu_out].
      replace (Nat.max n R) with (Nat.max (S n) R) by lia. reflexivity.
    + cbn [app length] in *. cbn [slu_out]. unfold aged in Hy. cbn [fst] in Hy.
      replace (Nat.max n R) with n by lia. replace (Nat.max (S n) R) with (S n) by lia.
      rewrite (first_aged_next d U n t Hn) by (rewrite Hu; exact Hy). reflexivity.
  - apply Forall_cons_iff in Ha. destruct Ha as [Hx Hp]. unfold aged in Hx. cbn [fst] in Hx.
    cbn [app length at_time map snd] in *. cbn [slu_out].
    replace (Nat.max n R) with n by lia.
    rewrite (first_aged_here d U n t Hn) by (rewrite Hu; exact Hx). rewrite Hu. f_equal.
    replace (R + S (length p))%nat with (S R + length p)%nat by lia.
    apply IH; [exact Hp|exact Hy|]. destruct Hlen as [H1|[H1 H2]]; [left; lia|right; split; [exact H1|lia]].
Qed.

Lemma nth_mid (a b : list (Z * A)) u x (c : list Z) :
  nth (length a) (map fst (a ++ (u, x) :: b) ++ c) 0 = u.
Proof.
  rewrite map_app, <- app_assoc, app_nth2 by (rewrite map_length; lia).
  rewrite map_length, Nat.sub_diag. reflexivity.
Qed.

Lemma slw_closed d tm : forall (post pre q : list (Z * A)),
  slw_spec d q (tevents post tm)
  = slu_out d (map fst (pre ++ q ++ post) ++ done_time tm) (length pre + length q) (length pre) (q ++ post)
    ++ term_ev tm.
Proof.
  induction post as [|[u x] post IH]; intros pre q.
  - rewrite !app_nil_r. unfold tevents. cbn [map app].
    destruct tm as [T|t e|]; cbn [slw_spec done_time term_ev].
    + destruct (pop_aged_split T d q) as [p [s [Hq [Hp [Ha Hy]]]]]. rewrite Hp. cbn [fst]. f_equal.
      set (U := map fst (pre ++ q) ++ [T]).
      assert (HT : nth (length pre + length q) U 0 = T).
      { unfold U. rewrite <- app_length, app_nth2 by (rewrite map_length; lia).
        rewrite map_length, Nat.sub_diag. reflexivity. }
      assert (HU : length U = S (length pre + length q)).
      { unfold U. rewrite app_length, map_length, app_length. cbn. lia. }
      replace (slu_out d U (length pre + length q) (length pre) q)
        with (slu_out d U (length pre + length q) (length pre) (p ++ s ++ [])) by (rewrite app_nil_r, <- Hq; reflexivity).
      rewrite (slu_pop d U _ T HT ltac:(lia) p (length pre) s [] Ha Hy)
        by (right; split; [reflexivity|]; rewrite Hq, app_length; lia).
      rewrite slu_out_end by lia. rewrite app_nil_r. unfold at_time. now rewrite map_map.
    + rewrite slu_out_end by (rewrite app_nil_r, map_length, app_length; lia). reflexivity.
    + rewrite slu_out_end by (rewrite app_nil_r, map_length, app_length; lia). reflexivity.
  - rewrite tevents_cons. cbn [slw_spec].
    destruct (pop_aged_split u d (q ++ [(u, x)])) as [p [s [Hq [Hp [Ha Hy]]]]]. rewrite Hp.
    rewrite (IH (pre ++ p) s).
    assert (Hl : (length p + length s = S (length q))%nat).
    { rewrite <- app_length, <- Hq, app_length. cbn. lia. }
    assert (E1 : (pre ++ p) ++ s ++ post = pre ++ q ++ (u, x) :: post).
    { rewrite <- app_assoc. f_equal. rewrite app_assoc, <- Hq, <- app_assoc. reflexivity. }
    rewrite E1. set (U := map fst (pre ++ q ++ (u, x) :: post) ++ done_time tm).
    assert (Hu : nth (length pre + length q) U 0 = u).
    { unfold U. rewrite <- app_length, app_assoc. apply nth_mid. }
    assert (HU : (length pre + length q < length U)%nat).
    { unfold U. rewrite app_length, map_length, !app_length. cbn. lia. }
    assert (E2 : q ++ (u, x) :: post = p ++ s ++ post).
    { change ((u, x) :: post) with ([(u, x)] ++ post). rewrite app_assoc, Hq, <- app_assoc. reflexivity. }
    rewrite E2.
    rewrite (slu_pop d U _ u Hu HU p (length pre) s post Ha Hy) by (left; lia).
    rewrite app_length. replace (length pre + length p + length s)%nat with (S (length pre + length q)) by lia.
    rewrite <- app_assoc. f_equal. unfold at_time. now rewrite map_map.
Qed.

Theorem skip_last_with_time_unsorted t0 d (tl : list (Z * A)) tm :
  timed_emits t0 (simulate (x_skip_last_with_time d) t0 (ext_of (tevents tl tm)))
  = slu_out d (map fst tl ++ done_time tm) 0 0 tl ++ term_ev tm.
Proof. rewrite skip_last_with_time_walk. exact (slw_closed d tm tl [] []). Qed.

Lemma slu_out_unfold d U lo i t (x : A) rest :
  slu_out d U lo i ((t, x) :: rest)
  = match find (fun j => d <=? nth j U 0 - t) (seq (Nat.max lo i) (length U - Nat.max lo i)) with
    | Some j => (nth j U 0, Next x) :: slu_out d U j (S i) rest
    | None => []
    end.
Proof. reflexivity. Qed.

(* ---- (3) what the closed form says ---- *)
Lemma first_aged_some d U lo t j : first_aged d U lo t = Some j ->
  (lo <= j < length U)%nat /\ d <= nth j U 0 - t.
Proof.
  unfold first_aged. intros H. apply find_some in H. destruct H as [Hin Hd].
  apply in_seq in Hin. split; [lia|lia].
Qed.

(* FIFO: the emitted elements are a prefix of the source's elements, in order *)
Lemma slu_out_prefix d U : forall (tl : list (Z * A)) lo i,
  map snd (slu_out d U lo i tl)
  = map (fun tx => Next (snd tx)) (firstn (length (slu_out d U lo i tl)) tl).
Proof.
  induction tl as [|[t x] rest IH]; intros lo i; [reflexivity|]. cbn [slu_out].
  destruct (first_aged d U (Nat.max lo i) t) as [j|]; [|reflexivity].
  cbn [length firstn map snd]. f_equal. apply IH.
Qed.

(* the k-th emission is the k-th element, at the instant of a popping notification that is not
   before the element's own arrival, and at which its age had reached d *)
Lemma slu_out_nth d U : forall (tl : list (Z * A)) lo i k u e,
  nth_error (slu_out d U lo i tl) k = Some (u, e) ->
  exists t x j, nth_error tl k = Some (t, x) /\ e = Next x /\ (Nat.max lo (i + k) <= j < length U)%nat
                /\ u = nth j U 0 /\ d <= u - t.
Proof.
  induction tl as [|[t x] rest IH]; intros lo i k u e H; [destruct k; discriminate H|].
  cbn [slu_out] in H. destruct (first_aged d U (Nat.max lo i) t) as [j|] eqn:Ef; [|destruct k; discriminate H].
  apply first_aged_some in Ef. destruct Ef as [Hj Hd]. destruct k as [|k].
  - cbn [nth_error] in H. injection H as <- <-. exists t, x, j. rewrite Nat.add_0_r.
    repeat split; [lia|lia|exact Hd].
  - cbn [nth_error] in H. destruct (IH j (S i) k u e H) as (t' & x' & j' & H1 & H2 & H3 & H4 & H5).
    exists t', x', j'. cbn [nth_error]. repeat split; [exact H1|exact H2|lia|lia|exact H4|exact H5].
Qed.

(* the release indices are monotone: an element never overtakes its predecessor *)
Lemma slu_out_in d U : forall (tl : list (Z * A)) lo i u x, In (u, Next x) (slu_out d U lo i tl) ->
  exists t, In (t, x) tl /\ d <= u - t /\ In u U.
Proof.
  intros tl lo i u x Hin. apply In_nth_error in Hin. destruct Hin as [k Hk].
  destruct (slu_out_nth d U tl lo i k u (Next x) Hk) as (t & x' & j & H1 & H2 & H3 & H4 & H5).
  injection H2 as <-. exists t. split; [exact (nth_error_In _ _ H1)|]. split; [exact H5|].
  rewrite H4. apply nth_In. lia.
Qed.

Theorem skip_last_with_time_unsorted_prefix t0 d (tl : list (Z * A)) tm :
  exists n, map snd (timed_emits t0 (simulate (x_skip_last_with_time d) t0 (ext_of (tevents tl tm))))
            = map (fun tx => Next (snd tx)) (firstn n tl) ++ map snd (@term_ev A tm).
Proof.
  rewrite skip_last_with_time_unsorted. eexists. rewrite map_app, slu_out_prefix. reflexivity.
Qed.

Theorem skip_last_with_time_unsorted_only_aged t0 d (tl : list (Z * A)) tm k u e :
  nth_error (timed_emits t0 (simulate (x_skip_last_with_time d) t0 (ext_of (tevents tl tm)))) k = Some (u, e) ->
  is_terminal e = false ->
  exists t x j, nth_error tl k = Some (t, x) /\ e = Next x /\ (k <= j < length tl + length (done_time tm))%nat
                /\ u = nth j (map fst tl ++ done_time tm) 0 /\ d <= u - t.
Proof.
  rewrite skip_last_with_time_unsorted. intros H He.
  set (U := map fst tl ++ done_time tm) in *.
  assert (Hk : (k < length (slu_out d U 0 0 tl))%nat).
  { destruct (Nat.lt_ge_cases k (length (slu_out d U 0 0 tl))) as [Hlt|Hge]; [exact Hlt|exfalso].
    rewrite nth_error_app2 in H by exact Hge.
    destruct tm as [T|T c|]; cbn [term_ev] in H.
    - destruct (k - length (slu_out d U 0 0 tl))%nat as [|[|?]]; cbn in H; try discriminate H.
      injection H as <- <-. discriminate He.
    - destruct (k - length (slu_out d U 0 0 tl))%nat as [|[|?]]; cbn in H; try discriminate H.
      injection H as <- <-. discriminate He.
    - destruct (k - length (slu_out d U 0 0 tl))%nat; discriminate H. }
  rewrite nth_error_app1 in H by exact Hk.
  destruct (slu_out_nth d U tl 0 0 k u e H) as (t & x & j & H1 & H2 & H3 & H4 & H5).
  exists t, x, j. repeat split; [exact H1|exact H2|lia| |exact H4|exact H5].
  unfold U in H3. rewrite app_length, map_length in H3. lia.
Qed.

(* on a time-sorted timeline the closed form is the earlier one ([sl_out]: every element at the
   first notification instant, its own or a later one, at which its age reached d) *)
Theorem slu_out_sorted d (tl : list (Z * A)) tm : tsorted tl ->
  slu_out d (map fst tl ++ done_time tm) 0 0 tl = sl_out d tl tm.
Proof.
  intros Hs. apply (app_inv_tail (term_ev tm)).
  rewrite <- (skip_last_with_time_unsorted 0 d tl tm). apply skip_last_with_time_instants, Hs.
Qed.
End SkipLastUnsorted.

(* without sortedness [sl_out] is NOT what the machine does: the element that arrived with the
   reading 0 is old enough at 12, but the head of the queue (reading 10) is not and blocks it *)
Theorem skip_last_with_time_instants_unsorted_refuted :
  timed_emits 0 (simulate (x_skip_last_with_time 5) 0 (ext_of (tevents [(10, 1); (0, 2); (12, 3)] TTNever))) = []
  /\ sl_out 5 [(10, 1); (0, 2); (12, 3)] TTNever ++ @term_ev Z TTNever = [(12, Next 2)].
Proof. vm_compute. split; reflexivity. Qed.

(* ... and what it does: released in order, each at the first popping notification not before its
   predecessor's at which its own age reached d.  Readings 0 10 4 9 16, completion at 17, d = 5:
   the element with reading 4 has age 5 at the notification with reading 9, but the head (reading
   10) has age -1 there and blocks it until 16 ([sl_out] would release it at 9) *)
Example slu_out_example :
  let tl := [(0, 1); (10, 2); (4, 3); (9, 4); (16, 5)] in
  slu_out 5 (map fst tl ++ done_time (TTDone 17)) 0 0 tl ++ @term_ev Z (TTDone 17)
  = [(10, Next 1); (16, Next 2); (16, Next 3); (16, Next 4); (17, Done)]
  /\ timed_emits 0 (simulate (x_skip_last_with_time 5) 0 (ext_of (tevents tl (TTDone 17))))
  = [(10, Next 1); (16, Next 2); (16, Next 3); (16, Next 4); (17, Done)]
  /\ sl_out 5 tl (TTDone 17) = [(10, Next 1); (16, Next 2); (9, Next 3); (16, Next 4)].
Proof. vm_compute. repeat split; reflexivity. Qed.
