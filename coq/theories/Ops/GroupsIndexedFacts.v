(* C19: facts about partition_indexed (model of Ops/GroupsIndexed.v), for EVERY state:
   - a non-raising indexed predicate delivers the element to exactly the subscribers whose
     verdict -- the predicate at THAT subscriber's own index -- selects their output, and
     advances every subscriber's index by one;
   - subscribers that share an index (e.g. all subscribed before the first element) see the
     element on exactly one of the two outputs, never both, and still share an index afterwards;
   - the source is subscribed iff some output subscriber is live, in every reachable state;
     a terminated subject has no subscriber. *)
From RxVerif Require Import Base.Prelude Ops.Machine Ops.MultiWin Ops.GroupsIndexed.

Section PartitionIndexedFacts.
Context {A : Type}.
Variable pred : A -> nat -> res bool.

Definition goes_to_i (b : bool) (g : nat) : bool := match g with O => b | _ => negb b end.

Definition pti_bumped (l : list (nat * nat)) : list (nat * nat) := map (fun gc => (fst gc, S (snd gc))) l.

Theorem partition_indexed_deliver (x : A) (pb : nat -> bool) : forall todo kept conn,
  (forall g c, In (g, c) todo -> pred x c = Ok (pb c)) ->
  pti_deliver pred x kept todo conn
  = (kept ++ pti_bumped todo, conn,
     map (fun gc => OWin (fst gc) (Next x)) (filter (fun gc => goes_to_i (pb (snd gc)) (fst gc)) todo)).
Proof.
  induction todo as [|[g c] t IH]; intros kept conn Hp.
  - cbn. rewrite app_nil_r. reflexivity.
  - cbn [pti_deliver filter pti_bumped map fst snd].
    assert (Hgc : pred x c = Ok (pb c)) by (apply (Hp g); left; reflexivity).
    assert (Ht : forall g' c', In (g', c') t -> pred x c' = Ok (pb c')) by (intros g' c' H; apply (Hp g'); right; exact H).
    unfold pti_pred. rewrite Hgc. rewrite (IH (kept ++ [(g, S c)]) conn Ht). rewrite <- app_assoc. cbn [app].
    destruct g as [|g]; cbn [goes_to_i]; destruct (pb c); cbn [negb map fst snd]; reflexivity.
Qed.

(* the step on an element, non-raising predicate: routing by each subscriber's own index *)
Theorem partition_indexed_routing (x : A) (pb : nat -> bool) s :
  pti_conn s = true -> pti_stopped s = None ->
  (forall g c, In (g, c) (pti_subs s) -> pred x c = Ok (pb c)) ->
  let '(s', o) := pti_step pred s (ISrc 0%nat (Next x)) in
  (forall g, In (OWin g (Next x)) o <-> exists c, In (g, c) (pti_subs s) /\ goes_to_i (pb c) g = true)
  /\ s' = PtiSt (pti_bumped (pti_subs s)) true None.
Proof.
  intros Hc Hs Hp. cbn [pti_step]. rewrite Hc, Hs, (partition_indexed_deliver x pb _ [] true Hp). cbn [app].
  split; [|reflexivity].
  intros g. rewrite in_map_iff. split.
  - intros [[j c] [Hj Hin]]. cbn [fst] in Hj. injection Hj as ->. apply filter_In in Hin. cbn [fst snd] in Hin.
    exists c. exact Hin.
  - intros [c [Hin Hg]]. exists (g, c). split; [reflexivity|]. apply filter_In. split; [exact Hin|exact Hg].
Qed.

(* subscribers sharing the index c: exactly one of the two outputs, never both; the index stays shared *)
Theorem partition_indexed_exactly_one (x : A) b c s :
  pti_conn s = true -> pti_stopped s = None ->
  (forall g c', In (g, c') (pti_subs s) -> c' = c) -> pred x c = Ok b ->
  let '(s', o) := pti_step pred s (ISrc 0%nat (Next x)) in
  (forall g, In (OWin g (Next x)) o <-> In g (pti_outs (pti_subs s)) /\ goes_to_i b g = true)
  /\ ~ (In (OWin 0%nat (Next x)) o /\ In (OWin 1%nat (Next x)) o)
  /\ pti_subs s' = map (fun gc => (fst gc, S c)) (pti_subs s)
  /\ (forall g c', In (g, c') (pti_subs s') -> c' = S c).
Proof.
  intros Hc Hs Heq Hp.
  assert (Hall : forall g c', In (g, c') (pti_subs s) -> pred x c' = Ok ((fun _ => b) c')).
  { intros g c' Hin. rewrite (Heq g c' Hin). exact Hp. }
  pose proof (partition_indexed_routing x (fun _ => b) s Hc Hs Hall) as R.
  destruct (pti_step pred s (ISrc 0%nat (Next x))) as [s' o]. destruct R as [R1 R2].
  assert (Hg : forall g, In (OWin g (Next x)) o <-> In g (pti_outs (pti_subs s)) /\ goes_to_i b g = true).
  { intros g. rewrite R1. unfold pti_outs. rewrite in_map_iff. split.
    - intros [c' [Hin Hg]]. split; [exists (g, c'); split; [reflexivity|exact Hin]|exact Hg].
    - intros [[[j c'] [Hj Hin]] Hg]. cbn [fst] in Hj. subst j. exists c'. split; assumption. }
  assert (Hsubs : pti_subs s' = map (fun gc => (fst gc, S c)) (pti_subs s)).
  { subst s'. cbn [pti_subs]. unfold pti_bumped. apply map_ext_in. intros [g c'] Hin. cbn [fst snd].
    rewrite (Heq g c' Hin). reflexivity. }
  split; [exact Hg|]. split; [|split; [exact Hsubs|]].
  - intros [H0 H1]. apply Hg in H0. apply Hg in H1. destruct H0 as [_ H0]. destruct H1 as [_ H1].
    cbn [goes_to_i] in *. rewrite H0 in H1. discriminate.
  - intros g c' Hin. rewrite Hsubs in Hin. apply in_map_iff in Hin. destruct Hin as [[j d] [Hj _]].
    injection Hj as _ <-. reflexivity.
Qed.

(* the source is subscribed iff some output subscriber is live; a terminated subject has none *)
Definition pti_inv (s : pti_st (A:=A)) : Prop :=
  (pti_conn s = true <-> pti_subs s <> []) /\ (pti_stopped s <> None -> pti_subs s = []).



Lemma pti_deliver_inv (x : A) : forall todo kept conn, (conn = true <-> kept ++ todo <> []) ->
  let '(s', c', _) := pti_deliver pred x kept todo conn in (c' = true <-> s' <> []).
Proof.
  induction todo as [|[g c] t IH]; intros kept conn H.
  - cbn [pti_deliver]. rewrite app_nil_r in H. exact H.
  - cbn [pti_deliver]. destruct (pti_pred pred g c x) as [b|e].
    + assert (H1 : conn = true <-> (kept ++ [(g, S c)]) ++ t <> []).
      { split; [intros _; destruct kept; discriminate|intros _; apply H; destruct kept; discriminate]. }
      specialize (IH (kept ++ [(g, S c)]) conn H1).
      destruct (pti_deliver pred x (kept ++ [(g, S c)]) t conn) as [[s' c'] o]. exact IH.
    + assert (H1 : fst (pti_leave (A:=A) (kept ++ t) conn) = true <-> kept ++ t <> []).
      { unfold pti_leave. destruct (kept ++ t) as [|p l] eqn:E.
        - destruct conn; cbn [fst]; split; try discriminate; intros F; contradiction.
        - cbn [fst]. split; [intros _; discriminate|intros _; apply H; destruct kept; discriminate]. }
      destruct (pti_leave (A:=A) (kept ++ t) conn) as [c1 o1]. cbn [fst] in H1.
      specialize (IH kept c1 H1). destruct (pti_deliver pred x kept t c1) as [[s' c'] o]. exact IH.
Qed.

Theorem pti_step_inv s i : pti_inv s -> pti_inv (fst (pti_step pred s i)).
Proof.
  intros Hinv. pose proof Hinv as [H1 H2].
  destruct i as [k e|tag| |g|g]; cbn [pti_step]; try exact Hinv.
  - destruct k; [|exact Hinv]. destruct (pti_conn s) eqn:Ec; [|exact Hinv].
    destruct (pti_stopped s) eqn:Es; [exact Hinv|].
    destruct e as [x|z|].
    + pose proof (pti_deliver_inv x (pti_subs s) [] true) as Hd. cbn [app] in Hd. specialize (Hd H1).
      destruct (pti_deliver pred x [] (pti_subs s) true) as [[s' c'] o]. cbn [fst].
      split; cbn [pti_conn pti_subs pti_stopped]; [exact Hd|intros H; contradiction].
    + destruct (pti_terminate (Err z) (pti_subs s) true) as [c' o]. cbn [fst].
      split; cbn [pti_conn pti_subs pti_stopped]; [split; [discriminate|intros H; contradiction]|auto].
    + destruct (pti_terminate Done (pti_subs s) true) as [c' o]. cbn [fst].
      split; cbn [pti_conn pti_subs pti_stopped]; [split; [discriminate|intros H; contradiction]|auto].
  - destruct (pti_stopped s) eqn:Es.
    + destruct (match pti_subs s with [] => true | _ => false end && negb (pti_conn s)); exact Hinv.
    + destruct (match pti_subs s with [] => true | _ => false end && negb (pti_conn s)) eqn:E; cbn [fst];
        split; cbn [pti_conn pti_subs pti_stopped]; try (intros H; contradiction).
      * split; [intros _; destruct (pti_subs s); discriminate|reflexivity].
      * split; [intros _; destruct (pti_subs s); discriminate|].
        intros _. destruct (pti_subs s) as [|j t] eqn:El.
        -- cbn in E. destruct (pti_conn s); [reflexivity|discriminate].
        -- apply H1. discriminate.
  - destruct (mem g (pti_outs (pti_subs s))); [|exact Hinv].
    assert (Hl : fst (pti_leave (A:=A) (pti_remove g (pti_subs s)) (pti_conn s)) = true <-> pti_remove g (pti_subs s) <> []).
    { unfold pti_leave. destruct (pti_remove g (pti_subs s)) as [|p l] eqn:E.
      - destruct (pti_conn s); cbn [fst]; split; try discriminate; intros F; contradiction.
      - cbn [fst]. split; [intros _; discriminate|intros _; apply H1; intros F; rewrite F in E; discriminate]. }
    destruct (pti_leave (A:=A) (pti_remove g (pti_subs s)) (pti_conn s)) as [c1 o1]. cbn [fst] in *.
    split; cbn [pti_conn pti_subs pti_stopped]; [exact Hl|].
    intros Hst. rewrite (H2 Hst). reflexivity.
Qed.

Theorem pti_inv_always (ins : list (Z * inp A)) : pti_inv (pti_after pred (PtiSt [] false None) ins).
Proof.
  assert (G : forall s, pti_inv s -> pti_inv (pti_after pred s ins)).
  { induction ins as [|[now i] rest IH]; intros s Hs; [exact Hs|]. cbn [pti_after]. apply IH, pti_step_inv, Hs. }
  apply G. split; cbn; [split; [discriminate|intros H; contradiction]|auto].
Qed.

(* a fresh subscription of an output starts at index 0 *)
Theorem partition_indexed_fresh_index s g : pti_stopped s = None ->
  pti_subs (fst (pti_step pred s (ISubWin g))) = pti_subs s ++ [(g, 0%nat)].
Proof.
  intros Hs. cbn [pti_step]. rewrite Hs.
  destruct (match pti_subs s with [] => true | _ => false end && negb (pti_conn s)); reflexivity.
Qed.
End PartitionIndexedFacts.
