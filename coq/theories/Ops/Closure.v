(* C04 / C44 -- closure levels and per-use state.

   Every RxPY operator is a tower of closures

       factory(args)  ->  apply(source)  ->  subscribe(observer, scheduler)  ->  handlers
          LFactory          LApply               LSub                             LHandler

   (for @curry_flip functions factory and apply are one Python call followed by the decorated
   body at application time; reactivex/internal/curry.py).  State that a closure of level L
   allocates is shared by everything that is created below that closure:
     F  cells allocated when the operator is BUILT     (one per operator value)
     A  cells allocated when the operator is APPLIED   (one per resulting observable)
     S  cells allocated by subscribe                   (one per subscription)
   This file is the fixed abstract model (no proofs; Ops/ClosureFacts.v):
     1. the types of the table Gen/AllocTable.v that harness/translate/alloc_tr.py regenerates
        from the source on every run, and the decidable per-row checks;
     2. [lprog]: a levelled program -- arbitrary code at every level, each piece of code may read
        and write the cells of its own and of all shallower levels;
     3. [exec_shared]: one operator value, applied any number of times, every application
        subscribed any number of times, handler runs interleaved arbitrarily;
        [exec_fresh]: the same history when a fresh operator is built for every application. *)
From Coq Require Import List String ZArith Bool Arith.
Import ListNotations.

(* ---- 1. the table ---------------------------------------------------------------- *)
Inductive level := LModule | LFactory | LApply | LSub | LHandler.

Definition lv (l : level) : nat :=
  match l with LModule => 0 | LFactory => 1 | LApply => 2 | LSub => 3 | LHandler => 4 end.
Definition level_leb (a b : level) : bool := Nat.leb (lv a) (lv b).
Definition level_ltb (a b : level) : bool := Nat.ltb (lv a) (lv b).

Inductive kind :=
| KCell | KContainer | KIter | KSubject | KDisposable | KFuture | KObject | KMulticast
| KLock | KSched | KEffect.

(* a public function of reactivex.operators ("ops.x") or reactivex ("rx.x") *)
Record op_info := mk_op {
  o_name : string;
  o_creation : bool;      (* creation function (no operator value: C44 does not apply) *)
  o_multicast : bool;     (* publish/share/replay/ref_count/multicast/publish_value, or built on them *)
  o_hot : bool;           (* hot / terminal by definition (translator allowlist) *)
  o_level : level }.      (* level of the public function's body *)

(* one allocation site *)
Record alloc_entry := mk_site {
  a_op : string; a_file : string; a_line : Z; a_name : string;
  a_kind : kind;
  a_alloc : level;        (* level at which the allocating expression is evaluated *)
  a_mut : level;          (* deepest level at which the object is written / consumed *)
  a_creation : bool; a_mc : bool; a_hot : bool;
  a_benign : bool }.      (* translator allowlist: sharing cannot be observed *)

(* locks (balanced acquire/release) and the shared scheduler services are not per-use state *)
Definition kind_exempt (k : kind) : bool :=
  match k with KLock | KSched => true | _ => false end.

(* the site is state shared between uses that [need] says must be independent:
   allocated above [need] and written deeper than where it was allocated *)
Definition shared_above (need : level) (e : alloc_entry) : bool :=
  level_ltb (a_alloc e) need && level_ltb (a_alloc e) (a_mut e).

Definition site_exempt (e : alloc_entry) : bool := kind_exempt (a_kind e) || a_benign e.

Definition entry_ok_C04 (e : alloc_entry) : bool :=
  site_exempt e || a_mc e || a_hot e || negb (shared_above LSub e).

Definition entry_ok_C44 (e : alloc_entry) : bool :=
  site_exempt e || a_creation e || negb (shared_above LApply e).

(* the cells of an operator's rows, by allocation level, with their deepest write level *)
Definition fcells (rows : list alloc_entry) : list level :=
  map a_mut (filter (fun e => negb (site_exempt e) && level_leb (a_alloc e) LFactory) rows).
Definition acells (rows : list alloc_entry) : list level :=
  map a_mut (filter (fun e => negb (site_exempt e) && level_leb LApply (a_alloc e)
                              && level_leb (a_alloc e) LApply) rows).

Definition rows_of (op : string) (t : list alloc_entry) : list alloc_entry :=
  filter (fun e => String.eqb (a_op e) op) t.

(* ---- 2. levelled programs -------------------------------------------------------- *)
Section Model.
  Variables Src In Out F A S : Type.

  (* code of every level may read and write the cells of its own and of shallower levels *)
  Record lprog := mk_lprog {
    new_f : F;                                           (* factory(args) *)
    app_f : F -> Src -> F;  app_a : F -> Src -> A;       (* apply(source): writes to F, new A *)
    sub_f : F -> A -> F;  sub_a : F -> A -> A;  sub_s : F -> A -> S;    (* subscribe *)
    run_f : F -> A -> S -> In -> F;  run_a : F -> A -> S -> In -> A;    (* one handler run *)
    run_s : F -> A -> S -> In -> S;  run_o : F -> A -> S -> In -> Out }.

  Variable p : lprog.

  (* no code below the factory writes a factory-level cell *)
  Definition frame_F : Prop :=
    (forall f src, app_f p f src = f) /\ (forall f a, sub_f p f a = f)
    /\ (forall f a s i, run_f p f a s i = f).
  (* ... nor an application-level cell *)
  Definition frame_A : Prop :=
    (forall f a, sub_a p f a = a) /\ (forall f a s i, run_a p f a s i = a).

  (* ---- 3. histories ------------------------------------------------------------- *)
  Inductive event :=
  | EApply (src : Src)          (* apply the operator value to a source: application #(number so far) *)
  | ESub (k : nat)              (* subscribe to application k: subscription #(number so far) *)
  | ERun (j : nat) (i : In).    (* subscription j receives input i (a source notification, a timer ...) *)

  Definition obs : Type := nat * In * Out.      (* subscription, input, what it emitted *)

  Fixpoint upd {X : Type} (l : list X) (k : nat) (x : X) : list X :=
    match l, k with
    | [], _ => []
    | _ :: r, O => x :: r
    | y :: r, Datatypes.S k' => y :: upd r k' x
    end.

  (* one operator value for all applications (what the code does) *)
  Record sstate := mk_ss { s_f : F; s_apps : list (Src * A); s_subs : list (nat * S) }.
  Definition init_shared : sstate := mk_ss (new_f p) [] [].

  Definition step_shared (st : sstate) (e : event) : sstate * list obs :=
    match e with
    | EApply src =>
        (mk_ss (app_f p (s_f st) src) (s_apps st ++ [(src, app_a p (s_f st) src)]) (s_subs st), [])
    | ESub k =>
        match nth_error (s_apps st) k with
        | Some (src, a) =>
            (mk_ss (sub_f p (s_f st) a) (upd (s_apps st) k (src, sub_a p (s_f st) a))
                   (s_subs st ++ [(k, sub_s p (s_f st) a)]), [])
        | None => (st, [])
        end
    | ERun j i =>
        match nth_error (s_subs st) j with
        | Some (k, s) =>
            match nth_error (s_apps st) k with
            | Some (src, a) =>
                (mk_ss (run_f p (s_f st) a s i) (upd (s_apps st) k (src, run_a p (s_f st) a s i))
                       (upd (s_subs st) j (k, run_s p (s_f st) a s i)),
                 [(j, i, run_o p (s_f st) a s i)])
            | None => (st, [])
            end
        | None => (st, [])
        end
    end.

  Fixpoint exec_shared (st : sstate) (h : list event) : sstate * list obs :=
    match h with
    | [] => (st, [])
    | e :: r => let '(st1, o) := step_shared st e in
                let '(st2, t) := exec_shared st1 r in (st2, o ++ t)
    end.
  Definition trace_shared (h : list event) : list obs := snd (exec_shared init_shared h).

  (* a fresh operator value per application (the reference of C44) *)
  Record fstate := mk_fs { f_apps : list (Src * F * A); f_subs : list (nat * S) }.
  Definition init_fresh : fstate := mk_fs [] [].

  Definition step_fresh (st : fstate) (e : event) : fstate * list obs :=
    match e with
    | EApply src =>
        (mk_fs (f_apps st ++ [(src, app_f p (new_f p) src, app_a p (new_f p) src)]) (f_subs st), [])
    | ESub k =>
        match nth_error (f_apps st) k with
        | Some (src, f, a) =>
            (mk_fs (upd (f_apps st) k (src, sub_f p f a, sub_a p f a))
                   (f_subs st ++ [(k, sub_s p f a)]), [])
        | None => (st, [])
        end
    | ERun j i =>
        match nth_error (f_subs st) j with
        | Some (k, s) =>
            match nth_error (f_apps st) k with
            | Some (src, f, a) =>
                (mk_fs (upd (f_apps st) k (src, run_f p f a s i, run_a p f a s i))
                       (upd (f_subs st) j (k, run_s p f a s i)),
                 [(j, i, run_o p f a s i)])
            | None => (st, [])
            end
        | None => (st, [])
        end
    end.

  Fixpoint exec_fresh (st : fstate) (h : list event) : fstate * list obs :=
    match h with
    | [] => (st, [])
    | e :: r => let '(st1, o) := step_fresh st e in
                let '(st2, t) := exec_fresh st1 r in (st2, o ++ t)
    end.
  Definition trace_fresh (h : list event) : list obs := snd (exec_fresh init_fresh h).

  (* what subscription j received / emitted *)
  Definition of_sub (j : nat) (o : obs) : bool := Nat.eqb (fst (fst o)) j.
  Definition ins_of (j : nat) (t : list obs) : list In := map (fun o => snd (fst o)) (filter (of_sub j) t).
  Definition outs_of (j : nat) (t : list obs) : list Out := map snd (filter (of_sub j) t).

  (* one subscription alone: a fresh operator, applied once to [src], subscribed once *)
  Definition a0 (src : Src) : A := app_a p (new_f p) src.
  Fixpoint iso_run (a : A) (s : S) (ins : list In) : list Out :=
    match ins with
    | [] => []
    | i :: r => run_o p (new_f p) a s i :: iso_run a (run_s p (new_f p) a s i) r
    end.
  Definition iso_state (src : Src) (ins : list In) : S :=
    fold_left (fun s i => run_s p (new_f p) (a0 src) s i) ins (sub_s p (new_f p) (a0 src)).
  Definition iso (src : Src) (ins : list In) : list Out :=
    iso_run (a0 src) (sub_s p (new_f p) (a0 src)) ins.
End Model.

Arguments EApply {Src In}.
Arguments ESub {Src In}.
Arguments ERun {Src In}.

(* ---- 4. programs whose cells are the rows of a table ----------------------------------
   F and A are stores (one Z per cell); [fm]/[am] give, per cell, the deepest level at which
   code writes it (column a_mut).  [described_by]: code running at level L leaves every cell
   whose deepest write level is above L (shallower) untouched, and never resizes a store.
   Cells beyond the declared list are never written (every written cell is declared). *)
Section Cells.
  Variables Src In Out S : Type.
  Definition store := list Z.
  Variable p : lprog Src In Out store store S.

  Definition keeps (m : list level) (L : level) (old new : store) : Prop :=
    List.length new = List.length old
    /\ forall i, lv (nth i m LModule) < lv L -> nth i new 0%Z = nth i old 0%Z.

  Definition described_by (fm am : list level) : Prop :=
    (forall f src, keeps fm LApply f (app_f _ _ _ _ _ _ p f src))
    /\ (forall f a, keeps fm LSub f (sub_f _ _ _ _ _ _ p f a))
    /\ (forall f a s i, keeps fm LHandler f (run_f _ _ _ _ _ _ p f a s i))
    /\ (forall f a, keeps am LSub a (sub_a _ _ _ _ _ _ p f a))
    /\ (forall f a s i, keeps am LHandler a (run_a _ _ _ _ _ _ p f a s i)).

  Definition cells_ok (top : level) (m : list level) : bool := forallb (fun w => level_leb w top) m.
End Cells.

(* ---- 5. the two concrete shapes of the defects found in /repo (witness programs) ---------- *)
(* an index/iterator allocated at application level and advanced by the handlers
   (zip_with_iterable_: second = iter(seq); map_indexed_: infinite(); catch: iter(sources)) *)
Definition prog_app_iter : lprog unit unit nat unit nat unit :=
  mk_lprog _ _ _ _ _ _ tt
    (fun f _ => f) (fun _ _ => 0)
    (fun f _ => f) (fun _ a => a) (fun _ _ => tt)
    (fun f _ _ _ => f) (fun _ a _ _ => Datatypes.S a) (fun _ _ s _ => s) (fun _ a _ _ => a).

(* a subscriber count allocated at factory level (ref_count_: count = 0 in the factory):
   subscribe increments it and remembers whether it was the first (should_connect) *)
Definition prog_factory_count : lprog unit unit bool nat unit bool :=
  mk_lprog _ _ _ _ _ _ 0
    (fun f _ => f) (fun _ _ => tt)
    (fun f _ => Datatypes.S f) (fun _ a => a) (fun f _ => Nat.eqb f 0)
    (fun f _ _ _ => f) (fun _ a _ _ => a) (fun _ _ s _ => s) (fun _ _ s _ => s).

(* the repaired shapes: the same cells one level down *)
Definition prog_sub_iter : lprog unit unit nat unit unit nat :=
  mk_lprog _ _ _ _ _ _ tt
    (fun f _ => f) (fun _ _ => tt)
    (fun f _ => f) (fun _ a => a) (fun _ _ => 0)
    (fun f _ _ _ => f) (fun _ a _ _ => a) (fun _ _ s _ => Datatypes.S s) (fun _ _ s _ => s).
