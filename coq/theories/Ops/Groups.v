(* C19: group_by / group_by_until as a machine of Ops/MultiWin.v, and partition
   as a small model of its own (publish + ref_count + two filters), following
   the code of the files named above each definition, AS IT IS.

   Groups are numbered 0,1,2,... in creation order.  Sources: 0 = the main
   source; the duration observable returned by the j-th call of the duration
   mapper is source [1 + j].  Keys are compared with Python's == / hash (the
   writers dict): the model's keys are the ids of the equality classes. *)
From RxVerif Require Import Base.Prelude Ops.Machine Ops.MultiWin.

Section Groups.
Context {A W B : Type}.

(* writers: OrderedDict key -> Subject, here (key, group, duration source) in
   insertion order *)
Record gb_st := GbSt { gb_writers : list (Z * nat * nat); gb_next : nat; gb_calls : nat }.

Definition gb_groups (l : list (Z * nat * nat)) : list nat := map (fun w => snd (fst w)) l.
Definition gb_all (l : list (Z * nat * nat)) (e : ev W) : list (cmd W B) :=
  map (fun g => CWin g e) (gb_groups l).

Fixpoint gb_lookup (k : Z) (l : list (Z * nat * nat)) : option nat :=
  match l with [] => None | (j, g, _) :: t => if j =? k then Some g else gb_lookup k t end.
Fixpoint gb_by_dur (d : nat) (l : list (Z * nat * nat)) : option (Z * nat) :=
  match l with [] => None | (j, g, c) :: t => if Nat.eqb d c then Some (j, g) else gb_by_dur d t end.
Fixpoint gb_del (k : Z) (l : list (Z * nat * nat)) : list (Z * nat * nat) :=
  match l with [] => [] | (j, g, c) :: t => if j =? k then t else (j, g, c) :: gb_del k t end.

(* operators/_groupbyuntil.py: on_next.  [dur j] = outcome of the j-th call of
   duration_mapper: Ok true = a (hot) observable, subscribed through take(1);
   Ok false = reactivex.never() (operators/_groupby.py). *)
Definition gb_on_next (key : A -> res Z) (elem : A -> res W) (dur : nat -> res bool) (s : gb_st) (x : A)
  : gb_st * list (cmd W B) * fin :=
  match key x with
  | Raise e => (s, gb_all (gb_writers s) (Err e), Fail e)
  | Ok k =>
      match gb_lookup k (gb_writers s) with
      | Some g =>
          match elem x with
          | Raise e => (s, gb_all (gb_writers s) (Err e), Fail e)
          | Ok y => (s, [CWin g (Next y)], Cont)
          end
      | None =>
          let g := gb_next s in
          let d := S (gb_calls s) in
          match dur (gb_calls s) with
          | Raise e =>
              let ws := gb_writers s ++ [(k, g, 0%nat)] in
              (GbSt ws (S g) (S (gb_calls s)), gb_all ws (Err e), Fail e)
          | Ok hot =>
              let ws := gb_writers s ++ [(k, g, if hot then d else 0%nat)] in
              let s' := GbSt ws (S g) (S (gb_calls s)) in
              let c0 := CHand g k :: (if hot then [CSub d] else []) in
              match elem x with
              | Raise e => (s', c0 ++ gb_all ws (Err e), Fail e)
              | Ok y => (s', c0 ++ [CWin g (Next y)], Cont)
              end
          end
      end
  end.

Definition x_group_by_until (key : A -> res Z) (elem : A -> res W) (dur : nat -> res bool) : machine A W B :=
  Machine (GbSt [] 0 0, [CSub 0%nat], Cont)
    (fun s _ i =>
       match i with
       | ISrc O (Next x) => gb_on_next key elem dur s x
       | ISrc _ (Err e) => (s, gb_all (gb_writers s) (Err e), Fail e)
       | ISrc O Done => (s, gb_all (gb_writers s) Done, Complete)
       | ISrc (S d) _ =>
           (* expire(): `if writers[key]: del writers[key]; writer.on_completed()`; take(1) detaches *)
           match gb_by_dur (S d) (gb_writers s) with
           | Some (k, g) => (GbSt (gb_del k (gb_writers s)) (gb_next s) (gb_calls s),
                             [CWin g Done; CUnsub (S d)], Cont)
           | None => (s, [CUnsub (S d)], Cont)
           end
       | _ => (s, [], Cont)
       end).

(* operators/_groupby.py: group_by = group_by_until(key, element, lambda _: never()) *)
Definition x_group_by (key : A -> res Z) (elem : A -> res W) : machine A W B :=
  x_group_by_until key elem (fun _ => Ok false).
End Groups.

(* ------------------------------------------------------------- partition -- *)
(* operators/_partition.py: published = source.pipe(publish(), ref_count());
   outputs [published.pipe(filter(predicate)), published.pipe(filter(not
   predicate))].  operators/_publish.py + observable/connectableobservable.py:
   ONE Subject, created when partition is applied; operators/connectable/
   _refcount.py: count of subscribers, connect on the first, disconnect when
   the count returns to zero.  There is no outer subscription: the subscriber
   subscribes to output 0 and/or 1 (ISubWin g / IUnsubWin g); the source is 0.

   [pt_subs]: the subject's observers in subscription order (output ids);
   [pt_stopped]: the subject's terminal once it got one. *)
Section Partition.
Context {A : Type}.

Record pt_st := PtSt { pt_subs : list nat; pt_conn : bool; pt_stopped : option (ev A) }.

Definition pt_pred (pred : A -> res bool) (g : nat) (x : A) : res bool :=
  match g with
  | O => pred x
  | _ => match pred x with Ok b => Ok (negb b) | Raise e => Raise e end
  end.

(* one subscriber leaves (its subscription is disposed): count -= 1; `if not
   count and connectable_subscription: connectable_subscription.dispose()` *)
Definition pt_leave (subs : list nat) (conn : bool) : bool * list (obs A unit) :=
  match subs with
  | [] => if conn then (false, [OUnsub 0%nat]) else (false, [])
  | _ => (conn, [])
  end.

(* Subject._on_next_core over a COPY of the observers: each filter evaluates
   its predicate; a raising predicate errors and detaches that subscriber *)
Fixpoint pt_deliver (pred : A -> res bool) (x : A) (todo : list nat) (subs : list nat) (conn : bool)
  : list nat * bool * list (obs A unit) :=
  match todo with
  | [] => (subs, conn, [])
  | g :: t =>
      match pt_pred pred g x with
      | Ok true => let '(s', c', o) := pt_deliver pred x t subs conn in (s', c', OWin g (Next x) :: o)
      | Ok false => pt_deliver pred x t subs conn
      | Raise e =>
          let subs1 := remove g subs in
          let '(conn1, o1) := pt_leave subs1 conn in
          let '(s', c', o) := pt_deliver pred x t subs1 conn1 in
          (s', c', OWin g (Err e) :: o1 ++ o)
      end
  end.

(* the subject's terminal: every observer gets it and detaches, in order *)
Fixpoint pt_terminate (e : ev A) (todo : list nat) (subs : list nat) (conn : bool)
  : list nat * bool * list (obs A unit) :=
  match todo with
  | [] => (subs, conn, [])
  | g :: t =>
      let subs1 := remove g subs in
      let '(conn1, o1) := pt_leave subs1 conn in
      let '(s', c', o) := pt_terminate e t subs1 conn1 in
      (s', c', OWin g e :: o1 ++ o)
  end.

Definition pt_step (pred : A -> res bool) (s : pt_st) (i : inp A) : pt_st * list (obs A unit) :=
  match i with
  | ISubWin g =>
      (* ref_count.subscribe: count += 1; subject.subscribe(observer); connect if count == 1 *)
      let first := match pt_subs s with [] => true | _ => false end in
      match pt_stopped s with
      | Some t =>
          (* the stopped subject answers with its terminal at once; the subscription is
             disposed as soon as ref_count's subscribe returned: count back to 0 *)
          if first && negb (pt_conn s)
          then (s, [OWin g t; OSub 0%nat; OUnsub 0%nat])
          else (s, [OWin g t])
      | None =>
          if first && negb (pt_conn s)
          then (PtSt (pt_subs s ++ [g]) true None, [OSub 0%nat])
          else (PtSt (pt_subs s ++ [g]) (pt_conn s) None, [])
      end
  | IUnsubWin g =>
      if mem g (pt_subs s)
      then let subs1 := remove g (pt_subs s) in
           let '(conn1, o) := pt_leave subs1 (pt_conn s) in
           (PtSt subs1 conn1 (pt_stopped s), o)
      else (s, [])
  | ISrc O e =>
      if pt_conn s then
        match pt_stopped s with
        | Some _ => (s, [])
        | None =>
            match e with
            | Next x =>
                let '(subs1, conn1, o) := pt_deliver pred x (pt_subs s) (pt_subs s) (pt_conn s) in
                (PtSt subs1 conn1 None, o)
            | _ =>
                let '(subs1, conn1, o) := pt_terminate e (pt_subs s) (pt_subs s) (pt_conn s) in
                (* the source's own auto-detach, if the connection is still there *)
                (PtSt subs1 false (Some e), o ++ (if conn1 then [OUnsub 0%nat] else []))
            end
        end
      else (s, [])
  | _ => (s, [])
  end.

Fixpoint pt_run_from (pred : A -> res bool) (s : pt_st) (k : nat) (ins : list (Z * inp A))
  : list (nat * obs A unit) :=
  match ins with
  | [] => []
  | (_, i) :: rest =>
      let '(s', o) := pt_step pred s i in
      map (fun x => (k, x)) o ++ pt_run_from pred s' (S k) rest
  end.

Definition pt_run (pred : A -> res bool) (ins : list (Z * inp A)) : list (nat * obs A unit) :=
  pt_run_from pred (PtSt [] false None) 1 ins.

Fixpoint pt_after (pred : A -> res bool) (s : pt_st) (ins : list (Z * inp A)) : pt_st :=
  match ins with [] => s | (_, i) :: rest => pt_after pred (fst (pt_step pred s i)) rest end.
End Partition.
