(* C09: run-level corollaries of [first_raise_exec] (Ops/FirstRaise.v) for the two callback operators that had
   a step-level routing lemma only: take_while_indexed (predicate with the running index) and to_dict (key
   mapper / element mapper). *)
From RxVerif Require Import Base.Prelude Ops.Machine Ops.MachineFacts Ops.Elementwise Ops.Aggregates
  Ops.RaiseFacts Ops.FirstRaise.

Section TakeWhileIndexed.
Context {A : Type}.

(* the predicate returned True on every element of pre, called with the indices i, i+1, ... *)
Fixpoint trues_i (p : A -> nat -> res bool) (i : nat) (pre : list A) : Prop :=
  match pre with [] => True | y :: r => p y i = Ok true /\ trues_i p (S i) r end.

Lemma state_after_take_while_indexed (p : A -> nat -> res bool) inc pre : forall i,
  trues_i p i pre ->
  state_after (op_take_while_indexed p inc) (true, i) pre = Some (true, (i + length pre)%nat).
Proof.
  induction pre as [|y r IH]; intros i H; cbn [state_after length trues_i] in *.
  - now rewrite Nat.add_0_r.
  - destruct H as [Hy Hr]. cbn [op_take_while_indexed m_next negb]. rewrite Hy. cbn [live].
    rewrite (IH _ Hr). now rewrite <- plus_n_Sm.
Qed.

Lemma take_while_indexed_prefix (p : A -> nat -> res bool) inc pre : forall i k,
  trues_i p i pre ->
  exec_from (op_take_while_indexed p inc) (true, i) k (map Next pre) = nexts (indexed k pre).
Proof.
  induction pre as [|y r IH]; intros i k H; [reflexivity|].
  destruct H as [Hy Hr]. cbn [map exec_from op_take_while_indexed m_next negb indexed].
  rewrite Hy. cbn [emit live map app]. rewrite (IH _ _ Hr). reflexivity.
Qed.

(* everything the predicate accepted was forwarded, then the error, and nothing after it *)
Theorem take_while_indexed_first_raise (p : A -> nat -> res bool) inc pre x post tl e :
  trues_i p 0 pre -> p x (length pre) = Raise e ->
  exec (op_take_while_indexed p inc) (map Next (pre ++ x :: post) ++ tl)
  = nexts (indexed 1 pre) ++ [(S (length pre), Err e)].
Proof.
  intros Hp Hx. pose proof (state_after_take_while_indexed p inc pre 0 Hp) as Hs. cbn [Nat.add] in Hs.
  erewrite (first_raise_exec0 (op_take_while_indexed p inc));
    [|reflexivity|exact Hs|apply raise_take_while_indexed; exact Hx].
  unfold exec. cbn [op_take_while_indexed m_pre m_init emit live map app].
  now rewrite (take_while_indexed_prefix p inc pre 0 1 Hp).
Qed.
End TakeWhileIndexed.

Section ToDict.
Context {A K V : Type}.

Lemma raise_to_dict_elem keq (key : A -> res K) (el : A -> res V) d x k e :
  key x = Ok k -> el x = Raise e -> m_next (op_to_dict keq key el) d x = (d, [], Fail e).
Proof. intros H1 H2. cbn. now rewrite H1, H2. Qed.

(* both mappers returned on every element of pre *)
Definition both_ok (key : A -> res K) (el : A -> res V) (pre : list A) : Prop :=
  Forall (fun y => (exists k, key y = Ok k) /\ exists v, el y = Ok v) pre.

Lemma state_after_to_dict keq (key : A -> res K) (el : A -> res V) pre : forall d,
  both_ok key el pre -> exists d', state_after (op_to_dict keq key el) d pre = Some d'.
Proof.
  induction pre as [|y r IH]; intros d H; cbn [state_after]; [eauto|].
  inversion H as [|? ? [[k Hk] [v Hv]] Hr]; subst. cbn [op_to_dict m_next]. rewrite Hk, Hv. cbn [live].
  apply IH. exact Hr.
Qed.

(* to_dict emits nothing before completion *)
Lemma to_dict_prefix_silent keq (key : A -> res K) (el : A -> res V) pre : forall d k d',
  state_after (op_to_dict keq key el) d pre = Some d' ->
  exec_from (op_to_dict keq key el) d k (map Next pre) = [].
Proof.
  induction pre as [|y r IH]; intros d k d' H; [reflexivity|].
  cbn [map exec_from state_after op_to_dict m_next] in *.
  destruct (key y) as [ky|e1]; cbn [live] in H; try discriminate.
  destruct (el y) as [vy|e1]; cbn [live] in H; try discriminate.
  cbn [emit live map app]. eapply IH; eassumption.
Qed.

(* key mapper OR element mapper raising on x (the key mapper is called first): the error is the only
   output -- no dictionary is ever delivered *)
Theorem to_dict_first_raise keq (key : A -> res K) (el : A -> res V) pre x post tl e :
  both_ok key el pre ->
  (key x = Raise e \/ exists k, key x = Ok k /\ el x = Raise e) ->
  exec (op_to_dict keq key el) (map Next (pre ++ x :: post) ++ tl) = [(S (length pre), Err e)].
Proof.
  intros Hp Hx. destruct (state_after_to_dict keq key el pre [] Hp) as [d' Hs].
  erewrite (first_raise_exec0 (op_to_dict keq key el)); [|reflexivity|exact Hs|].
  - unfold exec. cbn [op_to_dict m_pre m_init emit live map app].
    now rewrite (to_dict_prefix_silent keq key el pre _ _ _ Hs).
  - destruct Hx as [Hk|[k [Hk He]]].
    + apply raise_to_dict_key. exact Hk.
    + eapply raise_to_dict_elem; eassumption.
Qed.
End ToDict.
