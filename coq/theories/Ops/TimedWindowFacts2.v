(* C17, part 3 (after the theorem-quality audit):
   (1) timeout with a fallback over a TWO-port closed world (port 0 the source,
       port 1 the fallback observable): walk for every interleaving, and on a
       time-sorted timeline the closed form "before the switch the source's
       notifications, after it exactly the fallback's";
   (2) skip_last_with_time with the instants of the emissions, for every
       terminal (completion / error / none);
   (3) timeout with an ABSOLUTE due time in closed form. *)
From RxVerif Require Import Base.Prelude Ops.Machine Ops.Multi Ops.MultiFacts Ops.Timed Ops.TimedSim
  Ops.TimedFacts Ops.TimedWindowFacts Ops.TimedSubFacts.

Section TimeoutFallback.
Context {A : Type}.
Notation tin := (Z * nat * ev A)%type.

(* the notifications of port [k], at their instants *)
Definition port (k : nat) (ins : list tin) : list (Z * ev A) :=
  flat_map (fun x => if Nat.eqb (snd (fst x)) k then [(fst (fst x), snd x)] else []) ins.

Lemma port_cons k t j e ins :
  port k ((t, j, e) :: ins) = (if Nat.eqb j k then [(t, e)] else []) ++ port k ins.
Proof. reflexivity. Qed.

Fixpoint timeout2_spec (ts : tspec) (due : Z) (ins : list tin) : list (Z * ev A) :=
  match ins with
  | [] => []
  | (t, k, e) :: rest =>
      if t <=? due then
        match k with
        | O => match e with
               | Next x => (t, Next x) :: timeout2_spec ts (t + clamp (tdelay ts t)) rest
               | _ => [(t, e)]
               end
        | _ => timeout2_spec ts due rest
        end
      else upto_term (port 1 ins)
  end.

Lemma timeout2_switched_sim ts t0 : forall (ins : list tin) fuel s, (length ins <= fuel)%nat ->
  sim_emits (sim (x_timeout ts true t0) fuel s (RState [1%nat] [] false) [] (ext2_of ins))
  = upto_term (port 1 ins).
Proof.
  induction ins as [|[[t k] e] rest IH]; intros fuel s Hf.
  - now rewrite ext2_of_nil, sim_nil.
  - destruct fuel as [|f]; [cbn in Hf; lia|]. cbn [length] in Hf.
    rewrite sim_S, ext2_of_cons. cbn [next_event earliest fst snd]. unfold rstep.
    rewrite port_cons.
    destruct k as [|[|k]]; cbn.
    + rewrite sim_emits_cons. cbn. apply IH. lia.
    + destruct e as [x|c|]; cbn; rewrite sim_emits_cons; cbn.
      * f_equal. apply IH. lia.
      * rewrite sim_stopped by reflexivity. reflexivity.
      * rewrite sim_stopped by reflexivity. reflexivity.
    + rewrite sim_emits_cons. cbn. apply IH. lia.
Qed.

Lemma timeout2_sim ts t0 : forall (ins : list tin) fuel s tg due, (length ins + 1 <= fuel)%nat -> to_inv s tg ->
  sim_emits (sim (x_timeout ts true t0) fuel s (RState [0%nat] [tg] false) [(tg, due)] (ext2_of ins))
  = timeout2_spec ts due ins.
Proof.
  induction ins as [|[[t k] e] rest IH]; intros fuel s tg due Hf (Hsw & Hth & Hn & tms & Htm).
  - destruct fuel as [|f]; [cbn in Hf; lia|]. rewrite ext2_of_nil.
    rewrite sim_S. cbn [next_event earliest]. unfold rstep. cbn. nat_eqb. cbn.
    rewrite Hth, Htm. cbn. nat_eqb. cbn. rewrite sim_emits_cons. cbn. now rewrite sim_nil.
  - destruct fuel as [|f]; [cbn in Hf; lia|]. cbn [length] in Hf. cbn [timeout2_spec].
    rewrite sim_S, ext2_of_cons. cbn [next_event earliest fst snd].
    destruct (t <=? due) eqn:E.
    + destruct k as [|k].
      * destruct e as [x|e|]; unfold rstep; cbn; rewrite Hsw; cbn.
        -- rewrite Hn. cbn. nat_eqb. cbn. nat_eqb. rewrite sim_emits_cons. cbn. f_equal.
           apply IH; [lia|]. repeat split; cbn; try assumption; try reflexivity. eexists; reflexivity.
        -- rewrite sim_emits_cons. cbn. rewrite sim_stopped by reflexivity. reflexivity.
        -- rewrite sim_emits_cons. cbn. rewrite sim_stopped by reflexivity. reflexivity.
      * unfold rstep. cbn. nat_eqb. cbn. rewrite sim_emits_cons. cbn.
        apply IH; [lia|]. repeat split; try assumption. eexists; eassumption.
    + unfold rstep. cbn. nat_eqb. cbn.
      rewrite Hth, Htm. cbn. nat_eqb. cbn. rewrite sim_emits_cons. cbn.
      rewrite <- ext2_of_cons. apply timeout2_switched_sim. cbn [length]. lia.
Qed.

Theorem timeout_fallback_walk ts t0 (ins : list tin) :
  timed_emits t0 (simulate (x_timeout ts true t0) t0 (ext2_of ins)) = timeout2_spec ts (due_at ts t0) ins.
Proof.
  unfold simulate, simulate_fuel, timed_emits.
  cbn [x_start x_timeout apply_cmds finish fst snd app emits flat_map map].
  cbn [upd new_timers flat_map app filter fst r_timers mem existsb Nat.eqb orb].
  apply timeout2_sim; [unfold ext2_of; rewrite map_length; lia|].
  repeat split; cbn; try reflexivity. eexists; reflexivity.
Qed.

(* both ports on one time-sorted timeline *)
Fixpoint tsorted2 (ins : list tin) : Prop :=
  match ins with
  | [] => True
  | (t, _, _) :: r => Forall (fun y => t <= fst (fst y)) r /\ tsorted2 r
  end.

Lemma port_Forall (P : Z -> Prop) k : forall ins : list tin,
  Forall (fun y => P (fst (fst y))) ins -> Forall (fun te => P (fst te)) (port k ins).
Proof.
  induction ins as [|[[t j] e] r IH]; intros H; [constructor|].
  inversion H as [|? ? Hh Hr]; subst. rewrite port_cons.
  destruct (Nat.eqb j k); cbn [app]; [constructor; [exact Hh|]|]; apply IH, Hr.
Qed.

Lemma timeout_spec_late ts due (es : list (Z * ev A)) :
  Forall (fun te => due < fst te) es -> timeout_spec ts due es = ([], Some due).
Proof.
  destruct es as [|[t e] r]; [reflexivity|]. intros H. inversion H as [|? ? Hh _]; subst. cbn [fst] in Hh.
  cbn [timeout_spec]. destruct (t <=? due) eqn:E; [lia|reflexivity].
Qed.

(* the switch instant is not before anything the timer was compared with *)
Lemma timeout_spec_switch_lb ts : forall (es : list (Z * ev A)) due lo d,
  lo <= due -> Forall (fun te => lo <= fst te) es -> snd (timeout_spec ts due es) = Some d -> lo <= d.
Proof.
  induction es as [|[t e] r IH]; intros due lo d Hlo Hall Hs.
  - cbn in Hs. injection Hs as <-. exact Hlo.
  - cbn [timeout_spec] in Hs. inversion Hall as [|? ? Hh Hr]; subst. cbn [fst] in Hh.
    destruct (t <=? due) eqn:E.
    + destruct e as [x|c|]; [|discriminate Hs|discriminate Hs].
      destruct (timeout_spec ts (t + clamp (tdelay ts t)) r) as [o sw] eqn:Er. cbn [snd] in Hs.
      apply (IH (t + clamp (tdelay ts t)) lo d); [unfold clamp; lia|exact Hr|rewrite Er; exact Hs].
    + cbn in Hs. injection Hs as <-. exact Hlo.
Qed.

Definition fallback_after (d : Z) (ins : list tin) : list (Z * ev A) :=
  filter (fun te => d <? fst te) (port 1 ins).

Lemma timeout2_spec_sorted ts : forall (ins : list tin) due, tsorted2 ins ->
  timeout2_spec ts due ins
  = fst (timeout_spec ts due (port 0 ins))
    ++ match snd (timeout_spec ts due (port 0 ins)) with
       | Some d => upto_term (fallback_after d ins)
       | None => []
       end.
Proof.
  induction ins as [|[[t k] e] r IH]; intros due Hs; [reflexivity|].
  destruct Hs as [Hall Hs]. cbn [timeout2_spec]. destruct (t <=? due) eqn:E.
  - destruct k as [|k].
    + rewrite port_cons. cbn [Nat.eqb app timeout_spec]. rewrite E.
      destruct e as [x|c|]; [|reflexivity|reflexivity].
      rewrite (IH _ Hs). unfold fallback_after. rewrite port_cons. cbn [Nat.eqb app].
      destruct (timeout_spec ts (t + clamp (tdelay ts t)) (port 0 r)) as [o sw]. reflexivity.
    + rewrite (IH _ Hs). rewrite (port_cons 0). cbn [Nat.eqb app]. f_equal.
      destruct (snd (timeout_spec ts due (port 0 r))) as [d|] eqn:Esw; [|reflexivity].
      unfold fallback_after. rewrite port_cons. destruct (Nat.eqb (S k) 1); [|reflexivity].
      cbn [app filter fst].
      assert (Hd : t <= d).
      { apply (timeout_spec_switch_lb ts (port 0 r) due t d); [lia| |exact Esw].
        apply (port_Forall (fun u => t <= u)), Hall. }
      destruct (d <? t) eqn:E2; [lia|reflexivity].
  - assert (Hlate : Forall (fun y : tin => due < fst (fst y)) ((t, k, e) :: r)).
    { constructor; [cbn; lia|]. eapply Forall_impl; [|exact Hall]. cbn beta. intros y Hy. lia. }
    rewrite timeout_spec_late by (apply (port_Forall (fun u => due < u)), Hlate).
    cbn [fst snd app]. unfold fallback_after. rewrite filter_all; [reflexivity|].
    eapply Forall_impl; [|apply (port_Forall (fun u => due < u) 1), Hlate].
    cbn beta. intros te Hte. destruct (due <? fst te) eqn:E2; [reflexivity|lia].
Qed.

Theorem timeout_mirrors_fallback ts t0 (ins : list tin) : tsorted2 ins ->
  timed_emits t0 (simulate (x_timeout ts true t0) t0 (ext2_of ins))
  = fst (timeout_spec ts (due_at ts t0) (port 0 ins))
    ++ match snd (timeout_spec ts (due_at ts t0) (port 0 ins)) with
       | Some d => upto_term (fallback_after d ins)
       | None => []
       end.
Proof. intros Hs. rewrite timeout_fallback_walk. apply timeout2_spec_sorted, Hs. Qed.

Lemma port_tsorted k : forall ins : list tin, tsorted2 ins -> tsorted (port k ins).
Proof.
  induction ins as [|[[t j] e] r IH]; intros Hs; [exact I|]. destruct Hs as [Hall Hs].
  rewrite port_cons. destruct (Nat.eqb j k); cbn [app]; [|exact (IH Hs)].
  split; [|exact (IH Hs)]. apply (port_Forall (fun u => t <= u)), Hall.
Qed.
End TimeoutFallback.

Section SkipLastInstants.
Context {A : Type}.

(* an element that arrived at [fst tx] leaves the queue at the first of the
   notification instants [us] at which its age reached d *)
Definition sl_emit (d : Z) (us : list Z) (tx : Z * A) : list (Z * ev A) :=
  match find (fun u => d <=? u - fst tx) us with
  | Some u => [(u, Next (snd tx))]
  | None => []
  end.
Definition sl_q (d : Z) (us : list Z) (q : list (Z * A)) : list (Z * ev A) := flat_map (sl_emit d us) q.

(* the instant of the completion: the only terminal that flushes *)
Definition done_time (tm : tterm) : list Z := match tm with TTDone T => [T] | _ => [] end.

Fixpoint sl_out (d : Z) (tl : list (Z * A)) (tm : tterm) : list (Z * ev A) :=
  match tl with
  | [] => []
  | (t, x) :: rest => sl_emit d (t :: map fst rest ++ done_time tm) (t, x) ++ sl_out d rest tm
  end.

Lemma sl_q_nil d q : sl_q d [] q = [].
Proof. induction q as [|tx q IH]; [reflexivity|]. exact IH. Qed.

Lemma sl_q_app d us p s : sl_q d us (p ++ s) = sl_q d us p ++ sl_q d us s.
Proof. apply flat_map_app. Qed.

Lemma sl_q_aged d u us p : Forall (fun tx => aged u d tx = true) p ->
  sl_q d (u :: us) p = at_time u p.
Proof.
  induction 1 as [|tx p Hx _ IH]; [reflexivity|].
  cbn [sl_q flat_map at_time map]. unfold sl_emit at 1. cbn [find]. unfold aged in Hx. rewrite Hx.
  cbn [app]. f_equal. exact IH.
Qed.

Lemma sl_q_young d u us s : Forall (fun tx => aged u d tx = false) s ->
  sl_q d (u :: us) s = sl_q d us s.
Proof.
  induction 1 as [|tx s Hx _ IH]; [reflexivity|].
  cbn [sl_q flat_map]. unfold sl_emit at 1 3. cbn [find]. unfold aged in Hx. rewrite Hx.
  f_equal. exact IH.
Qed.

Lemma tsorted_app_l {X} (p s : list (Z * X)) : tsorted (p ++ s) -> tsorted p.
Proof.
  induction p as [|[t x] p IH]; [intros; exact I|]. cbn. intros [H1 H2]. split; [|auto].
  apply Forall_app in H1. apply H1.
Qed.

(* in a time-sorted queue the not-aged elements are a suffix *)
Lemma young_suffix T d (s : list (Z * A)) : tsorted s ->
  match s with [] => True | tx :: _ => aged T d tx = false end ->
  Forall (fun y => aged T d y = false) s.
Proof.
  destruct s as [|[t y] s']; [constructor|]. intros [Hs _] Hy. constructor; [exact Hy|].
  exact (young_tail T d t y s' Hy Hs).
Qed.

Lemma skip_last_inst_sim d : forall (tl : list (Z * A)) tm fuel q,
  (length tl + 1 <= fuel)%nat -> tsorted (q ++ tl) ->
  sim_emits (sim (x_skip_last_with_time d) fuel q R0 [] (ext_of (tevents tl tm)))
  = sl_q d (map fst tl ++ done_time tm) q ++ sl_out d tl tm ++ term_ev tm.
Proof.
  induction tl as [|[u x] rest IH]; intros tm fuel q Hf Hs.
  - destruct fuel as [|f]; [cbn in Hf; lia|]. rewrite app_nil_r in Hs.
    cbn [map app sl_out]. destruct tm as [T|t e|]; cbn [tevents map app done_time term_ev].
    + rewrite sim_S, ext_of_cons. cbn [next_event earliest fst snd]. unfold rstep. cbn.
      destruct (pop_aged_split T d q) as [p [s [Hq [Hp [Ha Hy]]]]]. rewrite Hp.
      rewrite apply_cmds_emit_list. sim_fin. rewrite sim_stopped by reflexivity. rewrite app_nil_r.
      subst q. rewrite sl_q_app, (sl_q_aged d T [] p Ha).
      rewrite (sl_q_young d T [] s), sl_q_nil, app_nil_r
        by (apply young_suffix; [exact (tsorted_app_r _ _ Hs)|exact Hy]).
      rewrite emits_app, emits_emit_list, map_app, !map_map. unfold at_time. reflexivity.
    + sim_step. rewrite sim_stopped by reflexivity. rewrite sl_q_nil. reflexivity.
    + rewrite ext_of_nil, sim_nil, sl_q_nil. reflexivity.
  - destruct fuel as [|f]; [cbn in Hf; lia|]. cbn [length] in Hf.
    rewrite tevents_cons, sim_S, ext_of_cons. cbn [next_event earliest fst snd]. unfold rstep. cbn.
    destruct (pop_aged_split u d (q ++ [(u, x)])) as [p [s [Hq [Hp [Ha Hy]]]]]. rewrite Hp.
    rewrite apply_cmds_emit_list. sim_fin. rewrite app_nil_r.
    assert (Hs' : tsorted ((q ++ [(u, x)]) ++ rest)) by (rewrite <- app_assoc; exact Hs).
    rewrite Hq, <- app_assoc in Hs'.
    rewrite filter_false. rewrite IH; [|lia|exact (tsorted_app_r _ _ Hs')].
    cbn [sl_out map fst app].
    set (us := map fst rest ++ done_time tm).
    assert (E1 : sl_emit d (u :: us) (u, x) = sl_q d (u :: us) [(u, x)])
      by (unfold sl_q; cbn [flat_map]; now rewrite app_nil_r).
    rewrite E1, !app_assoc. f_equal. f_equal. rewrite <- sl_q_app, Hq, sl_q_app.
    rewrite (sl_q_aged d u us p Ha).
    rewrite (sl_q_young d u us s)
      by (apply young_suffix; [exact (tsorted_app_l _ _ (tsorted_app_r _ _ Hs'))|exact Hy]).
    f_equal. rewrite emits_emit_list, !map_map. unfold at_time. reflexivity.
Qed.

Theorem skip_last_with_time_instants t0 d (tl : list (Z * A)) tm : tsorted tl ->
  timed_emits t0 (simulate (x_skip_last_with_time d) t0 (ext_of (tevents tl tm)))
  = sl_out d tl tm ++ term_ev tm.
Proof.
  intros Hs. unfold simulate, simulate_fuel, timed_emits.
  cbn [x_start x_skip_last_with_time apply_cmds finish fst snd app emits flat_map map].
  change (upd [] t0 [OSub 0%nat] (RState [0%nat] [] false)) with (@nil (nat * Z)).
  rewrite (skip_last_inst_sim d tl tm _ []); [reflexivity| |exact Hs].
  rewrite ext_of_length. unfold tevents. rewrite app_length, map_length. lia.
Qed.

Lemma sl_out_unfold d t (x : A) rest tm :
  sl_out d ((t, x) :: rest) tm
  = match find (fun u => d <=? u - t) (t :: map fst rest ++ match tm with TTDone T => [T] | _ => [] end) with
    | Some u => [(u, Next x)]
    | None => []
    end ++ sl_out d rest tm.
Proof. destruct tm; reflexivity. Qed.

(* an error (or no terminal) flushes nothing: only element instants count *)
Lemma sl_out_err_never d (tl : list (Z * A)) t e : sl_out d tl (TTErr t e) = sl_out d tl TTNever.
Proof. induction tl as [|[u x] r IH]; [reflexivity|]. cbn [sl_out done_time]. now rewrite IH. Qed.

(* every emission is an element whose age reached d at a notification instant *)
Lemma sl_out_in d : forall (tl : list (Z * A)) tm u x, In (u, Next x) (sl_out d tl tm) ->
  exists t, In (t, x) tl /\ d <= u - t /\ In u (map fst tl ++ done_time tm).
Proof.
  induction tl as [|[t y] rest IH]; intros tm u x Hin; [destruct Hin|].
  cbn [sl_out] in Hin. apply in_app_or in Hin. destruct Hin as [Hin|Hin].
  - unfold sl_emit in Hin. cbn [fst snd] in Hin.
    destruct (find (fun u0 => d <=? u0 - t) (t :: map fst rest ++ done_time tm)) as [u0|] eqn:Ef; [|destruct Hin].
    destruct Hin as [Hin|[]]. injection Hin as -> ->. apply find_some in Ef. destruct Ef as [Hu Hd].
    exists t. split; [left; reflexivity|]. split; [lia|exact Hu].
  - destruct (IH tm u x Hin) as [t' [H1 [H2 H3]]]. exists t'. split; [right; exact H1|].
    split; [exact H2|]. cbn [map fst app]. right. exact H3.
Qed.

Corollary skip_last_with_time_only_aged t0 d (tl : list (Z * A)) tm u x : tsorted tl ->
  In (u, Next x) (timed_emits t0 (simulate (x_skip_last_with_time d) t0 (ext_of (tevents tl tm)))) ->
  exists t, In (t, x) tl /\ d <= u - t /\ In u (map fst tl ++ done_time tm).
Proof.
  intros Hs Hin. rewrite (skip_last_with_time_instants t0 d tl tm Hs) in Hin.
  apply in_app_or in Hin. destruct Hin as [Hin|Hin]; [exact (sl_out_in d tl tm u x Hin)|].
  destruct tm; cbn in Hin; intuition discriminate.
Qed.
End SkipLastInstants.

Section TimeoutAbs.
Context {A : Type}.

Lemma clamp_abs t D : t + clamp (tdelay (Abs D) t) = Z.max t D.
Proof. cbn [tdelay]. unfold clamp. lia. Qed.

Lemma due_at_abs D t0 : due_at (Abs D) t0 = Z.max t0 D.
Proof. unfold due_at. apply clamp_abs. Qed.

(* absolute due time D, time-sorted notifications not before [lo]: the timer is
   re-armed for the same instant max lo D every time, so the operator is
   take_until_with_time with a switch in place of the completion *)
Lemma timeout_spec_abs D : forall (es : list (Z * ev A)) lo, tsorted es ->
  Forall (fun te => lo <= fst te) es ->
  timeout_spec (Abs D) (Z.max lo D) es =
  let k := filter (fun te => fst te <=? Z.max lo D) es in
  (upto_term k, if has_term k then None else Some (Z.max lo D)).
Proof.
  induction es as [|[t e] rest IH]; intros lo Hs Hlo; [reflexivity|].
  destruct Hs as [Hall Hs]. inversion Hlo as [|? ? Hh Hr]; subst. cbn [fst] in Hh.
  cbn [timeout_spec filter fst]. destruct (t <=? Z.max lo D) eqn:E.
  - destruct e as [x|c|]; [|reflexivity|reflexivity].
    rewrite clamp_abs. replace (Z.max t D) with (Z.max lo D) by lia.
    rewrite (IH lo Hs Hr). cbn [upto_term has_term existsb snd is_terminal orb]. reflexivity.
  - rewrite filter_none; [reflexivity|].
    eapply Forall_impl; [|exact Hall]. intros te Hte. cbn beta in *.
    destruct (fst te <=? Z.max lo D) eqn:E2; [lia|reflexivity].
Qed.

Theorem timeout_abs_closed_form D t0 (es : list (Z * ev A)) : tsorted es ->
  Forall (fun te => t0 <= fst te) es ->
  timeout_spec (Abs D) (due_at (Abs D) t0) es =
  let k := filter (fun te => fst te <=? Z.max t0 D) es in
  (upto_term k, if has_term k then None else Some (Z.max t0 D)).
Proof. intros Hs Hlo. rewrite due_at_abs. exact (timeout_spec_abs D es t0 Hs Hlo). Qed.

(* on the machine, no fallback *)
Theorem timeout_abs_no_fallback D t0 (es : list (Z * ev A)) : tsorted es ->
  Forall (fun te => t0 <= fst te) es ->
  timed_emits t0 (simulate (x_timeout (Abs D) false t0) t0 (ext_of es)) =
  let k := filter (fun te => fst te <=? Z.max t0 D) es in
  upto_term k ++ (if has_term k then [] else [(Z.max t0 D, Err TIMEOUT_ERR)]).
Proof.
  intros Hs Hlo. rewrite timeout_spec_no_fallback. unfold timeout_out.
  rewrite (timeout_abs_closed_form D t0 es Hs Hlo). cbn [fst snd].
  destruct (has_term (filter (fun te => fst te <=? Z.max t0 D) es)); reflexivity.
Qed.

(* the same list as take_until_with_time, with the completion replaced by the switch *)
Corollary timeout_abs_is_take_until D t0 (es : list (Z * ev A)) : tsorted es ->
  Forall (fun te => t0 <= fst te) es ->
  fst (timeout_spec (Abs D) (due_at (Abs D) t0) es)
  ++ match snd (timeout_spec (Abs D) (due_at (Abs D) t0) es) with Some due => [(due, Done)] | None => [] end
  = take_spec (Z.max t0 D) es.
Proof.
  intros Hs Hlo. rewrite (timeout_abs_closed_form D t0 es Hs Hlo), (take_spec_sorted _ es Hs). cbn [fst snd].
  destruct (has_term (filter (fun te => fst te <=? Z.max t0 D) es)); reflexivity.
Qed.

(* absolute due time with a fallback, both ports on one time-sorted timeline
   not before the subscription: the source's notifications up to and at
   max t0 D; unless it terminated by then, exactly the fallback's after it *)
Theorem timeout_abs_mirrors_fallback D t0 (ins : list (Z * nat * ev A)) : tsorted2 ins ->
  Forall (fun y => t0 <= fst (fst y)) ins ->
  timed_emits t0 (simulate (x_timeout (Abs D) true t0) t0 (ext2_of ins)) =
  let k := filter (fun te => fst te <=? Z.max t0 D) (port 0 ins) in
  upto_term k ++ (if has_term k then [] else upto_term (fallback_after (Z.max t0 D) ins)).
Proof.
  intros Hs Hlo. rewrite (timeout_mirrors_fallback (Abs D) t0 ins Hs).
  rewrite (timeout_abs_closed_form D t0 (port 0 ins) (port_tsorted 0 ins Hs)
             (port_Forall (fun u => t0 <= u) 0 ins Hlo)). cbn [fst snd].
  destruct (has_term (filter (fun te => fst te <=? Z.max t0 D) (port 0 ins))); reflexivity.
Qed.
End TimeoutAbs.
